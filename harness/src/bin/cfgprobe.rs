//! cfgprobe: runs exactly what Server::setup runs to establish the configuration
//! (set_default_values(); bootstrap();) in the current directory, with this process's
//! environment and command line, and prints the effective settings as one JSON line.
use rwsv::entry_point::{bootstrap, get_ip_port_thread_count, get_request_allocation_size, set_default_values, Config};

fn main() {
    set_default_values();
    bootstrap();
    let (ip, port, threads) = get_ip_port_thread_count();
    let size = get_request_allocation_size();
    let ev = |k: &str| std::env::var(k).unwrap_or_else(|_| "<unset>".to_string());
    let v = serde_json::json!({
        "ip": ip,
        "port": port.to_string(),
        "thread_count": threads.to_string(),
        "request_allocation_size": size.to_string(),
        "cors_allow_all": ev(Config::RWS_CONFIG_CORS_ALLOW_ALL),
        "cors_allow_origins": ev(Config::RWS_CONFIG_CORS_ALLOW_ORIGINS),
        "cors_allow_methods": ev(Config::RWS_CONFIG_CORS_ALLOW_METHODS),
        "cors_allow_headers": ev(Config::RWS_CONFIG_CORS_ALLOW_HEADERS),
        "cors_allow_credentials": ev(Config::RWS_CONFIG_CORS_ALLOW_CREDENTIALS),
        "cors_expose_headers": ev(Config::RWS_CONFIG_CORS_EXPOSE_HEADERS),
        "cors_max_age": ev(Config::RWS_CONFIG_CORS_MAX_AGE),
    });
    eprintln!("CFGPROBE {}", v);
}
