//! rwsv run <PROP> --tier quick|thorough --shard i/n --out FILE [--journal FILE] [--skip HASH,...]
//! rwsv replay <FILE>
use rwsv::engine::{install_panic_hook, Ctx, Tier};
use serde_json::{json, Value};
use std::io::Write;

fn arg(args: &[String], name: &str) -> Option<String> {
    args.iter().position(|a| a == name).and_then(|i| args.get(i + 1).cloned())
}

fn main() {
    let args: Vec<String> = std::env::args().collect();
    if args.len() == 2 && args[1] == "oracle-selftest" {
        match rwsv::oracle::selftest::run() {
            Ok(n) => {
                eprintln!("oracle self-test: {} assertions hold", n);
                return;
            }
            Err(e) => {
                eprintln!("{}", e);
                std::process::exit(1);
            }
        }
    }
    if args.len() < 3 {
        eprintln!("usage: rwsv run <PROP> --tier T --shard i/n --out FILE | rwsv replay FILE");
        std::process::exit(2);
    }
    install_panic_hook();
    match args[1].as_str() {
        "run" => {
            let prop = args[2].clone();
            let tier = match arg(&args, "--tier").as_deref() {
                Some("thorough") => Tier::Thorough,
                _ => Tier::Quick,
            };
            let shard = arg(&args, "--shard").unwrap_or_else(|| "0/1".to_string());
            let (i, n) = shard.split_once('/').unwrap();
            let out = arg(&args, "--out").expect("--out");
            let mut ctx = Ctx::new(&prop, tier, i.parse().unwrap(), n.parse().unwrap());
            if let Some(j) = arg(&args, "--journal") {
                ctx.journal = Some(std::fs::OpenOptions::new().create(true).write(true).open(j).unwrap());
            }
            if let Some(s) = arg(&args, "--skip") {
                for h in s.split(',').filter(|x| !x.is_empty()) {
                    ctx.skip_hashes.insert(h.parse().unwrap());
                }
            }
            if let Some(d) = arg(&args, "--describe") {
                ctx.describe = Some(d.parse().unwrap());
            }
            // crash recovery: --checkpoint FILE (partial reports), --resume-after HASH
            if let Some(c) = arg(&args, "--checkpoint") {
                ctx.checkpoint = Some(c);
            }
            if let Some(r) = arg(&args, "--resume-after") {
                ctx.resume_after = Some(r.parse().unwrap());
                ctx.resuming = true;
            }
            // history replay: --only FILE (one decimal hash per line), --until HASH, --orderlog FILE
            if let Some(f) = arg(&args, "--only") {
                let text = std::fs::read_to_string(f).expect("--only file");
                ctx.only = Some(text.split_whitespace().filter_map(|h| h.parse().ok()).collect());
            }
            if let Some(u) = arg(&args, "--until") {
                ctx.until = Some(u.parse().unwrap());
            }
            if let Some(f) = arg(&args, "--orderlog") {
                ctx.orderlog = Some(std::io::BufWriter::new(std::fs::File::create(f).expect("--orderlog file")));
            }
            // run on a named thread with the same stack size the server's workers get
            let stack = arg(&args, "--stack").and_then(|s| s.parse().ok()).unwrap_or(2 * 1024 * 1024usize);
            let h = std::thread::Builder::new()
                .name("0".to_string())
                .stack_size(stack)
                .spawn(move || {
                    let known = rwsv::props::run(&prop, &mut ctx);
                    (known, ctx)
                })
                .unwrap();
            let (known, mut ctx) = match h.join() {
                Ok(x) => x,
                Err(_) => {
                    eprintln!("harness thread panicked outside a guarded case");
                    std::process::exit(3);
                }
            };
            if !known {
                eprintln!("unknown property");
                std::process::exit(2);
            }
            let rep = ctx.report();
            std::fs::write(&out, serde_json::to_vec(&rep).unwrap()).unwrap();
        }
        "replay" => {
            let text = std::fs::read_to_string(&args[2]).expect("replay file");
            let v: Value = serde_json::from_str(&text).expect("json");
            let prop = v["property"].as_str().unwrap_or("").to_string();
            let case = v["case"].clone();
            if v.get("history").is_some() {
                // a failure that needs the cases executed before it: re-run exactly those cases of
                // the recorded shard, in enumeration order, in this fresh process
                let hist = v["history"].clone();
                let tier = if hist["tier"].as_str() == Some("thorough") { Tier::Thorough } else { Tier::Quick };
                let shard = hist["shard"].as_str().unwrap_or("0/1").to_string();
                let (i, n) = shard.split_once('/').unwrap();
                let mut ctx = Ctx::new(&prop, tier, i.parse().unwrap(), n.parse().unwrap());
                ctx.only = Some(hist["hashes"].as_array().cloned().unwrap_or_default().iter().filter_map(|h| h.as_str().and_then(|x| x.parse().ok())).collect());
                let p2 = prop.clone();
                let h = std::thread::Builder::new()
                    .name("0".to_string())
                    .stack_size(2 * 1024 * 1024)
                    .spawn(move || {
                        rwsv::props::run(&p2, &mut ctx);
                        ctx
                    })
                    .unwrap();
                let ctx = h.join().expect("history replay thread");
                let out = json!({"failures": ctx.failures.iter().map(|f| json!({"signature": f.signature, "detail": f.detail, "hash": f.hash.to_string()})).collect::<Vec<_>>(), "executed": ctx.evaluations});
                let so = std::io::stdout();
                let mut so = so.lock();
                writeln!(so, "REPLAY-RESULT {}", out).unwrap();
                std::process::exit(if ctx.failures.is_empty() { 0 } else { 1 });
            }
            let h = std::thread::Builder::new()
                .name("0".to_string())
                .stack_size(2 * 1024 * 1024)
                .spawn(move || rwsv::props::replay(&prop, &case))
                .unwrap();
            let r = h.join().unwrap_or(None);
            match r {
                None => {
                    eprintln!("unknown property in replay file");
                    std::process::exit(2);
                }
                Some(fails) => {
                    let out = json!({"failures": fails.iter().map(|f| json!({"signature": f.signature, "detail": f.detail})).collect::<Vec<_>>()});
                    let so = std::io::stdout();
                    let mut so = so.lock();
                    writeln!(so, "REPLAY-RESULT {}", out).unwrap();
                    std::process::exit(if fails.is_empty() { 0 } else { 1 });
                }
            }
        }
        "mktree" => {
            // rwsv mktree <dir>: the corpus tree (plus the C08 link targets) for the binary conformance step
            let root = std::path::PathBuf::from(&args[2]);
            let mut t = rwsv::corpus::tree();
            t.file("targets/small.txt", b"small target behind a link\n");
            t.link("link-small.txt", "@/targets/small.txt");
            t.build(&root);
        }
        "serve" => {
            // rwsv serve <requests.json> <out.json>: answer each request (hex) in-process, cwd = served tree
            rwsv::drive::default_config();
            let reqs: Vec<String> = serde_json::from_str(&std::fs::read_to_string(&args[2]).expect("requests")).expect("json");
            let out_path = args[3].clone();
            let h = std::thread::Builder::new()
                .name("0".to_string())
                .spawn(move || {
                    reqs.iter()
                        .map(|r| {
                            let o = rwsv::drive::simple(rwsv::drive::Entry::Process, &rwsv::engine::unhex(r));
                            if o.panic.is_some() {
                                "PANIC".to_string()
                            } else {
                                rwsv::engine::hex(&o.raw)
                            }
                        })
                        .collect::<Vec<String>>()
                })
                .unwrap();
            let outs = h.join().unwrap();
            std::fs::write(out_path, serde_json::to_vec(&outs).unwrap()).unwrap();
        }
        "sysio-selftest" => {
            // are std's file reads bound to the definitions in sysio.rs?
            rwsv::sysio::enable(true);
            let before = rwsv::sysio::crossed();
            let _ = std::fs::read(&args[2]);
            let _ = std::fs::metadata(&args[2]);
            rwsv::sysio::enable(false);
            println!("crossed {}", rwsv::sysio::crossed() - before);
        }
        "oracle-selftest" => match rwsv::oracle::selftest::run() {
            Ok(n) => {
                eprintln!("oracle self-test: {} assertions hold", n);
            }
            Err(e) => {
                eprintln!("{}", e);
                std::process::exit(1);
            }
        },
        _ => {
            eprintln!("unknown command");
            std::process::exit(2);
        }
    }
}
