//! The C04 request corpus: twelve tokenised seed requests (one per controller and
//! shortcut), deviation-bounded mutation (every single deviation; every pair in the
//! thorough tier), truncation at every byte, structural series (k header lines), every
//! byte value in form bodies, transport answers to `read`, scripted applications.
//! Shared by C04 (liveness / no crash), C10 (header monitor), C13 (manifest).

use crate::transport::ReadPlan;
use crate::tree::TreeSpec;
use serde_json::{json, Value};
use std::io::ErrorKind;

#[derive(Clone, Copy, PartialEq, Eq, Debug)]
pub enum Tok {
    Method,
    Sp,
    Target,
    Version,
    Crlf,
    HName,
    HSep,
    HValue,
    Blank,
    Body,
}

#[derive(Clone, Debug)]
pub struct Seed {
    pub name: &'static str,
    pub toks: Vec<(Tok, Vec<u8>)>,
}

fn seed(name: &'static str, method: &str, target: &str, headers: &[(&str, &str)], body: &[u8]) -> Seed {
    let mut toks: Vec<(Tok, Vec<u8>)> = vec![
        (Tok::Method, method.as_bytes().to_vec()),
        (Tok::Sp, b" ".to_vec()),
        (Tok::Target, target.as_bytes().to_vec()),
        (Tok::Sp, b" ".to_vec()),
        (Tok::Version, b"HTTP/1.1".to_vec()),
        (Tok::Crlf, b"\r\n".to_vec()),
    ];
    for (n, v) in headers {
        toks.push((Tok::HName, n.as_bytes().to_vec()));
        toks.push((Tok::HSep, b": ".to_vec()));
        toks.push((Tok::HValue, v.as_bytes().to_vec()));
        toks.push((Tok::Crlf, b"\r\n".to_vec()));
    }
    toks.push((Tok::Blank, b"\r\n".to_vec()));
    if !body.is_empty() {
        toks.push((Tok::Body, body.to_vec()));
    }
    Seed { name, toks }
}

pub const MULTIPART_BODY: &[u8] = b"--XB\r\nContent-Disposition: form-data; name=\"f\"\r\n\r\nvalue\r\n--XB\r\nContent-Disposition: form-data; name=\"g\"; filename=\"g.txt\"\r\nContent-Type: text/plain\r\n\r\nsecond\r\n--XB--\r\n";

pub fn seeds() -> Vec<Seed> {
    let h = [("Host", "localhost")];
    let mut v = vec![
        seed("get-file", "GET", "/file.txt", &h, b""),
        seed("get-dir", "GET", "/dir/", &h, b""),
        seed("get-root", "GET", "/", &h, b""),
        seed("get-builtin", "GET", "/style.css", &h, b""),
        seed("head-file", "HEAD", "/file.txt", &h, b""),
        seed(
            "options-preflight",
            "OPTIONS",
            "/file.txt",
            &[("Host", "localhost"), ("Origin", "https://foo.example"), ("Access-Control-Request-Method", "POST"), ("Access-Control-Request-Headers", "content-type")],
            b"",
        ),
        seed("get-range", "GET", "/file.txt", &[("Host", "localhost"), ("Range", "bytes=2-5, 7-8")], b""),
        seed("form-get", "GET", "/form-get-method?a=b&c=d", &h, b""),
        seed(
            "form-urlencoded",
            "POST",
            "/form-url-encoded-enctype-post-method",
            &[("Host", "localhost"), ("Content-Type", "application/x-www-form-urlencoded"), ("Content-Length", "7")],
            b"a=b&c=d",
        ),
        seed(
            "form-multipart",
            "POST",
            "/form-multipart-enctype-post-method",
            &[("Host", "localhost"), ("Content-Type", "multipart/form-data; boundary=XB")],
            MULTIPART_BODY,
        ),
        seed("file-upload-initiate", "POST", "/file-upload/initiate?name=a.txt&size=1&lastModified=2", &h, b""),
        seed("get-missing", "GET", "/missing", &h, b""),
    ];
    // the multipart request again, with its body tokenised part by part
    let mut m = seed("form-multipart-fine", "POST", "/form-multipart-enctype-post-method", &[("Host", "localhost"), ("Content-Type", "multipart/form-data; boundary=XB")], b"");
    let body_toks: [(Tok, &[u8]); 17] = [
        (Tok::Body, b"--XB"),
        (Tok::Crlf, b"\r\n"),
        (Tok::HName, b"Content-Disposition"),
        (Tok::HSep, b": "),
        (Tok::HValue, b"form-data"),
        (Tok::HValue, b"; name=\"f\""),
        (Tok::Crlf, b"\r\n"),
        (Tok::Blank, b"\r\n"),
        (Tok::Body, b"value"),
        (Tok::Crlf, b"\r\n"),
        (Tok::Body, b"--XB"),
        (Tok::Crlf, b"\r\n"),
        (Tok::HName, b"Content-Disposition"),
        (Tok::HSep, b": "),
        (Tok::HValue, b"form-data; name=\"g\"; filename=\"g.txt\""),
        (Tok::Crlf, b"\r\n\r\nsecond\r\n"),
        (Tok::Body, b"--XB--\r\n"),
    ];
    for (t, b) in body_toks.iter() {
        m.toks.push((*t, b.to_vec()));
    }
    v.push(m);
    v
}

/// Served tree for the corpus.
pub fn tree() -> TreeSpec {
    let mut t = TreeSpec::new();
    t.file("file.txt", b"0123456789");
    t.file("dir/index.html", b"<html>dir index</html>");
    t.file("page.html", b"<html>page</html>");
    t.file("big.bin", &crate::tree::coded(20000, 7));
    t.file("a.txt", b"existing a.txt\n");
    t.file("four-mib.bin", &vec![b'z'; 4 << 20]);
    t.dir("empty");
    t
}

pub fn hostile() -> Vec<Vec<u8>> {
    let mut v: Vec<Vec<u8>> = vec![
        b"".to_vec(),
        b" ".to_vec(),
        b"\t".to_vec(),
        b"\0".to_vec(),
        b"\xff".to_vec(),
        b"\xc3".to_vec(),
        b"\r".to_vec(),
        b"\n".to_vec(),
        b"a".to_vec(),
        b":".to_vec(),
        b": ".to_vec(),
        b"%".to_vec(),
        b"/".to_vec(),
        b"..".to_vec(),
        b"x".to_vec(),
        b"-1".to_vec(),
        b"18446744073709551616".to_vec(),
        b"9223372036854775807".to_vec(), // isize::MAX: parses as a length, cannot be allocated
        b"1099511627776".to_vec(),       // 1 TiB
        vec![b'9'; 40],
        b"?".to_vec(),
        b"#".to_vec(),
        b"=".to_vec(),
        b"bytes=-11".to_vec(),
        b"bytes=5-".to_vec(),
        b"bytes=11".to_vec(),     // a lone number beyond the 10-byte file
        b"%\xe2\x82\xac".to_vec(),  // a stray percent sign in front of a multi-byte character
        b"%a\xe2\x82\xac".to_vec(),
        b"Content-Length".to_vec(),
        b"Range".to_vec(),
        b"attachment".to_vec(),
        b"inline".to_vec(),
        b"form-data".to_vec(),
        b"; name=".to_vec(),
        b"; filename=\"x\"".to_vec(),
        b"\"".to_vec(),
        b";".to_vec(),
        b"--XB".to_vec(),
        b"--".to_vec(),
    ];
    v.push(vec![b'A'; 9990]);
    v
}

#[derive(Clone, Debug, PartialEq, Eq)]
pub enum Dev {
    Replace(usize, usize), // token index, hostile index
    Delete(usize),
    Duplicate(usize),
}

impl Dev {
    pub fn to_json(&self) -> Value {
        match self {
            Dev::Replace(t, h) => json!(["replace", t, h]),
            Dev::Delete(t) => json!(["delete", t]),
            Dev::Duplicate(t) => json!(["duplicate", t]),
        }
    }
    pub fn from_json(v: &Value) -> Dev {
        let t = v[1].as_u64().unwrap_or(0) as usize;
        match v[0].as_str() {
            Some("replace") => Dev::Replace(t, v[2].as_u64().unwrap_or(0) as usize),
            Some("delete") => Dev::Delete(t),
            _ => Dev::Duplicate(t),
        }
    }
    pub fn tok(&self) -> usize {
        match self {
            Dev::Replace(t, _) | Dev::Delete(t) | Dev::Duplicate(t) => *t,
        }
    }
}

pub fn apply(seed: &Seed, devs: &[Dev], hostile: &[Vec<u8>]) -> Vec<u8> {
    let mut out = Vec::new();
    for (i, (_, bytes)) in seed.toks.iter().enumerate() {
        let mut cur: Option<Vec<u8>> = Some(bytes.clone());
        let mut dup = false;
        for d in devs {
            if d.tok() != i {
                continue;
            }
            match d {
                Dev::Replace(_, h) => cur = Some(hostile[*h].clone()),
                Dev::Delete(_) => cur = None,
                Dev::Duplicate(_) => dup = true,
            }
        }
        if let Some(c) = cur {
            out.extend_from_slice(&c);
            if dup {
                out.extend_from_slice(&c);
            }
        }
    }
    out
}

pub fn single_devs(seed: &Seed, hostile_len: usize) -> Vec<Dev> {
    let mut v = Vec::new();
    for i in 0..seed.toks.len() {
        for h in 0..hostile_len {
            v.push(Dev::Replace(i, h));
        }
        v.push(Dev::Delete(i));
        v.push(Dev::Duplicate(i));
    }
    v
}

#[derive(Clone, Copy, PartialEq, Eq, Debug)]
pub enum AppKind {
    Shipped,
    Ok200,
    Err,
    /// Err(reason) with a long non-ASCII reason: 1500 repetitions of a 2-, 3- or 4-byte character
    /// after 0..w-1 ASCII bytes (index 0..8), so that any fixed byte offset falls inside a character
    ErrText(u8),
    Unregistered,
}
pub const ERR_TEXT_NAMES: [&str; 9] = ["scripted-err-text-0", "scripted-err-text-1", "scripted-err-text-2", "scripted-err-text-3", "scripted-err-text-4", "scripted-err-text-5", "scripted-err-text-6", "scripted-err-text-7", "scripted-err-text-8"];
pub fn err_text(i: u8) -> String {
    let combos: [(&str, usize); 9] = [("\u{439}", 0), ("\u{439}", 1), ("\u{20ac}", 0), ("\u{20ac}", 1), ("\u{20ac}", 2), ("\u{1F600}", 0), ("\u{1F600}", 1), ("\u{1F600}", 2), ("\u{1F600}", 3)];
    let (ch, shift) = combos[(i as usize) % 9];
    format!("{}{}", "a".repeat(shift), ch.repeat(1500))
}
impl AppKind {
    pub fn name(&self) -> &'static str {
        match self {
            AppKind::ErrText(i) => ERR_TEXT_NAMES[(*i as usize) % 9],
            AppKind::Shipped => "shipped",
            AppKind::Ok200 => "scripted-ok",
            AppKind::Err => "scripted-err",
            AppKind::Unregistered => "scripted-unregistered-status",
        }
    }
    pub fn from_name(s: &str) -> AppKind {
        match s {
            "scripted-ok" => AppKind::Ok200,
            "scripted-err" => AppKind::Err,
            x if x.starts_with("scripted-err-text-") => AppKind::ErrText(x[18..].parse().unwrap_or(0)),
            "scripted-unregistered-status" => AppKind::Unregistered,
            _ => AppKind::Shipped,
        }
    }
}

#[derive(Clone, Copy, PartialEq, Eq, Debug)]
pub enum ReadKind {
    Full,
    Eof,
    Err,
}
impl ReadKind {
    pub fn name(&self) -> &'static str {
        match self {
            ReadKind::Full => "full",
            ReadKind::Eof => "eof",
            ReadKind::Err => "err",
        }
    }
    pub fn from_name(s: &str) -> ReadKind {
        match s {
            "eof" => ReadKind::Eof,
            "err" => ReadKind::Err,
            _ => ReadKind::Full,
        }
    }
    pub fn plan(&self) -> ReadPlan {
        match self {
            ReadKind::Full => ReadPlan::Full,
            ReadKind::Eof => ReadPlan::Eof,
            ReadKind::Err => ReadPlan::Err(ErrorKind::ConnectionReset),
        }
    }
}

/// A fully described corpus case. `gen` says how the bytes are produced so that a replay
/// file stays small even for the 1 MB structural cases.
#[derive(Clone, Debug)]
pub struct Case {
    pub family: &'static str,
    pub gen: Value,
    pub bytes: Vec<u8>,
    pub entry: crate::drive::Entry,
    pub app: AppKind,
    pub read: ReadKind,
    pub request_size: i64,
}

impl Case {
    pub fn to_json(&self) -> Value {
        json!({"family": self.family, "gen": self.gen, "entry": self.entry.name(), "app": self.app.name(), "read": self.read.name(), "request_size": self.request_size})
    }
    pub fn key(&self) -> Vec<u8> {
        let mut k = format!("{}\0{}\0{}\0{}\0", self.entry.name(), self.app.name(), self.read.name(), self.request_size).into_bytes();
        k.extend_from_slice(&self.bytes);
        k
    }
}

pub fn header_lines(k: usize, line: &[u8]) -> Vec<u8> {
    let mut v = b"GET /file.txt HTTP/1.1\r\n".to_vec();
    for _ in 0..k {
        v.extend_from_slice(line);
    }
    v.extend_from_slice(b"\r\n");
    v
}

/// Rebuild the bytes of a case from its `gen` description.
pub fn bytes_from_gen(gen: &Value) -> Vec<u8> {
    let seeds = seeds();
    let hostile = hostile();
    match gen["kind"].as_str().unwrap_or("") {
        "mutation" => {
            let s = &seeds[gen["seed"].as_u64().unwrap_or(0) as usize];
            let devs: Vec<Dev> = gen["devs"].as_array().map(|a| a.iter().map(Dev::from_json).collect()).unwrap_or_default();
            apply(s, &devs, &hostile)
        }
        "truncate" => {
            let s = &seeds[gen["seed"].as_u64().unwrap_or(0) as usize];
            let mut b = apply(s, &[], &hostile);
            b.truncate(gen["at"].as_u64().unwrap_or(0) as usize);
            b
        }
        "header-lines" => header_lines(gen["k"].as_u64().unwrap_or(0) as usize, &crate::engine::unhex(gen["line_hex"].as_str().unwrap_or(""))),
        "form-byte" => {
            let b = gen["byte"].as_u64().unwrap_or(0) as u8;
            if gen["endpoint"].as_str() == Some("multipart") {
                let mut body = b"--XB\r\nContent-Disposition: form-data; name=\"f\"\r\n\r\nv".to_vec();
                body.push(b);
                body.extend_from_slice(b"w\r\n--XB--\r\n");
                crate::drive::request_bytes("POST", "/form-multipart-enctype-post-method", "HTTP/1.1", &[("Host", "localhost"), ("Content-Type", "multipart/form-data; boundary=XB")], &body)
            } else {
                let mut body = b"a=b".to_vec();
                body.push(b);
                body.extend_from_slice(b"c&d=e");
                crate::drive::request_bytes("POST", "/form-url-encoded-enctype-post-method", "HTTP/1.1", &[("Host", "localhost"), ("Content-Type", "application/x-www-form-urlencoded")], &body)
            }
        }
        "many-ranges" => {
            let k = gen["k"].as_u64().unwrap_or(1) as usize;
            let spec = gen["spec"].as_str().unwrap_or("0-0");
            let value = format!("bytes={}", vec![spec; k].join(","));
            crate::drive::request_bytes("GET", gen["target"].as_str().unwrap_or("/file.txt"), "HTTP/1.1", &[("Range", &value)], b"")
        }
        "multipart-parts" => {
            // k minimal parts, bare-LF framing as small as the reader accepts
            let k = gen["k"].as_u64().unwrap_or(1) as usize;
            let mut body = b"b\n".to_vec();
            for _ in 0..k {
                body.extend_from_slice(b"a: b\n\nv\nb\n");
            }
            crate::drive::request_bytes("POST", "/form-multipart-enctype-post-method", "HTTP/1.1", &[("Content-Type", "multipart/form-data; boundary=b")], &body)
        }
        "fill" => {
            // a valid request padded with a header value so that it is exactly `len` bytes
            let len = gen["len"].as_u64().unwrap_or(0) as usize;
            let base = crate::drive::request_bytes("GET", "/file.txt", "HTTP/1.1", &[("Host", "localhost"), ("X-Pad", "")], b"");
            let pad = len.saturating_sub(base.len());
            let padv = "p".repeat(pad);
            crate::drive::request_bytes("GET", "/file.txt", "HTTP/1.1", &[("Host", "localhost"), ("X-Pad", &padv)], b"")
        }
        "raw" => crate::engine::unhex(gen["hex"].as_str().unwrap_or("")),
        _ => Vec::new(),
    }
}

pub fn case_from_json(v: &Value) -> Case {
    let fam = v["family"].as_str().unwrap_or("");
    let family: &'static str = match fam {
        "mutation1" => "mutation1",
        "mutation2" => "mutation2",
        "truncate" => "truncate",
        "header-lines" => "header-lines",
        "form-byte" => "form-byte",
        "fill" => "fill",
        "many-ranges" => "many-ranges",
        "multipart-parts" => "multipart-parts",
        "transport-read" => "transport-read",
        "app" => "app",
        _ => "raw",
    };
    Case {
        family,
        gen: v["gen"].clone(),
        bytes: bytes_from_gen(&v["gen"]),
        entry: crate::drive::Entry::from_name(v["entry"].as_str().unwrap_or("process")),
        app: AppKind::from_name(v["app"].as_str().unwrap_or("")),
        read: ReadKind::from_name(v["read"].as_str().unwrap_or("")),
        request_size: v["request_size"].as_i64().unwrap_or(10000),
    }
}

/// Enumerate the whole corpus for a tier. `f` returns nothing; ownership/dedup is the
/// caller's business (through Ctx::begin_case on case.key()).
pub fn for_each(thorough: bool, f: &mut dyn FnMut(Case)) {
    for_each_opt(thorough, true, f)
}

/// `pairs`: include every pair of deviations (C04 does; the monitors that only need breadth do not)
pub fn for_each_opt(thorough: bool, pairs: bool, f: &mut dyn FnMut(Case)) {
    use crate::drive::Entry;
    let seeds = seeds();
    let hostile = hostile();
    let entries = [Entry::Process, Entry::Legacy];
    // 1. single deviations, both entry points
    for (si, s) in seeds.iter().enumerate() {
        // the unmutated seed itself
        for e in entries {
            f(Case { family: "mutation1", gen: json!({"kind":"mutation","seed":si,"devs":[]}), bytes: apply(s, &[], &hostile), entry: e, app: AppKind::Shipped, read: ReadKind::Full, request_size: 10000 });
        }
        let singles = single_devs(s, hostile.len());
        for d in &singles {
            let bytes = apply(s, std::slice::from_ref(d), &hostile);
            for e in entries {
                f(Case { family: "mutation1", gen: json!({"kind":"mutation","seed":si,"devs":[d.to_json()]}), bytes: bytes.clone(), entry: e, app: AppKind::Shipped, read: ReadKind::Full, request_size: 10000 });
            }
        }
        // 2. pairs: every pair of deviations on two different tokens; production entry point
        if pairs {
            let small_h = hostile.len() - 1; // the 9990-byte filler only takes part in single deviations
            let singles2 = single_devs(s, small_h);
            for (i, a) in singles2.iter().enumerate() {
                for b in singles2[i + 1..].iter() {
                    if a.tok() == b.tok() {
                        continue;
                    }
                    let devs = [a.clone(), b.clone()];
                    f(Case { family: "mutation2", gen: json!({"kind":"mutation","seed":si,"devs":[a.to_json(), b.to_json()]}), bytes: apply(s, &devs, &hostile), entry: Entry::Process, app: AppKind::Shipped, read: ReadKind::Full, request_size: 10000 });
                }
            }
        }
        // 3. truncation at every byte offset
        let full = apply(s, &[], &hostile);
        for at in 0..full.len() {
            for e in entries {
                f(Case { family: "truncate", gen: json!({"kind":"truncate","seed":si,"at":at}), bytes: full[..at].to_vec(), entry: e, app: AppKind::Shipped, read: ReadKind::Full, request_size: 10000 });
            }
        }
        // 4. transport answers to read, scripted applications
        for r in [ReadKind::Eof, ReadKind::Err] {
            for e in entries {
                f(Case { family: "transport-read", gen: json!({"kind":"mutation","seed":si,"devs":[]}), bytes: full.clone(), entry: e, app: AppKind::Shipped, read: r, request_size: 10000 });
            }
        }
        for a in [AppKind::Ok200, AppKind::Err, AppKind::Unregistered] {
            f(Case { family: "app", gen: json!({"kind":"mutation","seed":si,"devs":[]}), bytes: full.clone(), entry: Entry::Process, app: a, read: ReadKind::Full, request_size: 10000 });
        }
        if si < 2 {
            for i in 0..9u8 {
                f(Case { family: "app", gen: json!({"kind":"mutation","seed":si,"devs":[]}), bytes: full.clone(), entry: Entry::Process, app: AppKind::ErrText(i), read: ReadKind::Full, request_size: 10000 });
            }
        }
    }
    // 5. structural series: k header lines, several line shapes and buffer sizes
    // line shapes: no colon, bare LF, well-formed, numeric, not UTF-8, continuation (leading blank), colon only
    let lines: [&[u8]; 9] = [b"a\n", b"a\r\n", b"a: b\r\n", b"Content-Length: 1\r\n", b"\xff\n", b"\xff\r\n", b" a\r\n", b"\ta: b\r\n", b":\r\n"];
    for (size, max_lines) in [(10000i64, 5000usize), (16000, 8000), (1_000_000, if thorough { 500_000 } else { 65_536 })] {
        let mut ks: Vec<usize> = vec![0, 1, 2, 3];
        let mut p = 4;
        while p <= max_lines {
            ks.push(p);
            ks.push(p + 1);
            p *= 2;
        }
        ks.push(max_lines);
        if thorough {
            let step = (max_lines / 64).max(1);
            let mut k = step;
            while k < max_lines {
                ks.push(k);
                k += step;
            }
        }
        ks.sort();
        ks.dedup();
        for line in lines.iter() {
            for k in &ks {
                if k * line.len() + 30 > size as usize {
                    continue;
                }
                f(Case { family: "header-lines", gen: json!({"kind":"header-lines","k":k,"line_hex":crate::engine::hex(line)}), bytes: header_lines(*k, line), entry: Entry::Process, app: AppKind::Shipped, read: ReadKind::Full, request_size: size });
            }
        }
    }
    // 6. every byte value inside the bodies of the form endpoints
    for b in 0..=255u8 {
        for ep in ["urlencoded", "multipart"] {
            let gen = json!({"kind":"form-byte","endpoint":ep,"byte":b});
            for e in entries {
                f(Case { family: "form-byte", gen: gen.clone(), bytes: bytes_from_gen(&gen), entry: e, app: AppKind::Shipped, read: ReadKind::Full, request_size: 10000 });
            }
        }
    }
    // 6b. many ranges in one request (sums and products over the part list)
    for target in ["/file.txt", "/big.bin", "/four-mib.bin"] {
        for spec in ["0-0", "0-", "-1"] {
            if target == "/four-mib.bin" && spec == "0-" {
                continue; // 2400 copies of a 4 MiB file: a memory question, not this property's
            }
            for k in [1usize, 2, 3, 16, 255, 256, 257, 511, 512, 513, 1024, 2047, 2048, 2400] {
                let gen = json!({"kind":"many-ranges","target":target,"spec":spec,"k":k});
                let bytes = bytes_from_gen(&gen);
                if bytes.len() > 9990 {
                    continue;
                }
                if target == "/big.bin" && spec == "0-" && k > 257 {
                    continue; // the body writer is quadratic in the number of parts: 2048 copies of 20 KB take 20 s
                }
                for e in entries {
                    f(Case { family: "many-ranges", gen: gen.clone(), bytes: bytes.clone(), entry: e, app: AppKind::Shipped, read: ReadKind::Full, request_size: 10000 });
                }
            }
        }
    }
    // 6c. many multipart parts in one request (one recursion level per part?), several buffer sizes
    for (size, kmax) in [(10000i64, 1000usize), (16000, 1600), (1_000_000, if thorough { 100_000 } else { 30_000 })] {
        let mut ks: Vec<usize> = vec![1, 2, 3];
        let mut p = 4;
        while p < kmax {
            ks.push(p);
            p *= 2;
        }
        ks.push(kmax);
        for k in ks {
            let gen = json!({"kind":"multipart-parts","k":k});
            let bytes = bytes_from_gen(&gen);
            if bytes.len() as i64 > size {
                continue;
            }
            f(Case { family: "multipart-parts", gen, bytes, entry: Entry::Process, app: AppKind::Shipped, read: ReadKind::Full, request_size: size });
        }
    }
    // 7. requests around the buffer size
    for len in [9998usize, 9999, 10000, 10001, 10002, 12000, 20000] {
        let gen = json!({"kind":"fill","len":len});
        for e in entries {
            f(Case { family: "fill", gen: gen.clone(), bytes: bytes_from_gen(&gen), entry: e, app: AppKind::Shipped, read: ReadKind::Full, request_size: 10000 });
        }
    }
}
