//! Driving the real request entry points on scripted streams.

use crate::app::App;
use crate::application::Application;
use crate::core::New;
use crate::engine::{guard, PanicInfo};
use crate::oracle::http::{parse_response, BodyRule, Resp};
use crate::request::Request;
use crate::response::Response;
use crate::server::{Address, ConnectionInfo, Server};
use crate::transport::MockStream;
use std::net::{IpAddr, Ipv4Addr, SocketAddr};

#[derive(Clone, Copy, PartialEq, Eq, Debug)]
pub enum Entry {
    /// production: Server::process(stream, connection, app)
    Process,
    /// legacy: Server::process_request(stream, peer_addr)
    Legacy,
}
impl Entry {
    pub fn name(&self) -> &'static str {
        match self {
            Entry::Process => "process",
            Entry::Legacy => "process_request",
        }
    }
    pub fn from_name(s: &str) -> Entry {
        if s == "process_request" {
            Entry::Legacy
        } else {
            Entry::Process
        }
    }
}

pub fn conn(request_size: i64) -> ConnectionInfo {
    ConnectionInfo {
        client: Address { ip: "127.0.0.1".to_string(), port: 50000 },
        server: Address { ip: "127.0.0.1".to_string(), port: 7878 },
        request_size,
    }
}

/// Once per worker process: the same defaults the server installs at start-up.
pub fn default_config() {
    crate::entry_point::set_default_values();
}

pub fn request_bytes(method: &str, target: &str, version: &str, headers: &[(&str, &str)], body: &[u8]) -> Vec<u8> {
    let mut v = Vec::new();
    v.extend_from_slice(method.as_bytes());
    v.push(b' ');
    v.extend_from_slice(target.as_bytes());
    v.push(b' ');
    v.extend_from_slice(version.as_bytes());
    v.extend_from_slice(b"\r\n");
    for (n, val) in headers {
        v.extend_from_slice(n.as_bytes());
        v.extend_from_slice(b": ");
        v.extend_from_slice(val.as_bytes());
        v.extend_from_slice(b"\r\n");
    }
    v.extend_from_slice(b"\r\n");
    v.extend_from_slice(body);
    v
}

pub fn get(target: &str, headers: &[(&str, &str)]) -> Vec<u8> {
    request_bytes("GET", target, "HTTP/1.1", headers, b"")
}

#[derive(Debug)]
pub struct Outcome {
    /// bytes the transport accepted
    pub raw: Vec<u8>,
    /// what the entry point returned (Process only)
    pub result: Option<Result<(), String>>,
    pub panic: Option<PanicInfo>,
    pub write_calls: usize,
    pub flush_calls: usize,
}

pub const DEFAULT_REQUEST_SIZE: i64 = 10000;

/// Run one connection through an entry point with the shipped application.
pub fn run(entry: Entry, stream: &mut MockStream) -> Outcome {
    run_with(entry, stream, App::new(), DEFAULT_REQUEST_SIZE)
}

pub fn run_with<A: Application>(entry: Entry, stream: &mut MockStream, app: A, request_size: i64) -> Outcome {
    let r = guard(|| match entry {
        Entry::Process => Some(Server::process(&mut *stream, conn(request_size), app)),
        Entry::Legacy => {
            let peer = SocketAddr::new(IpAddr::V4(Ipv4Addr::new(127, 0, 0, 1)), 50000);
            let _ = Server::process_request(&mut *stream, peer);
            None
        }
    });
    let (result, panic) = match r {
        Ok(x) => (x, None),
        Err(p) => (None, Some(p)),
    };
    Outcome { raw: stream.written.clone(), result, panic, write_calls: stream.write_calls, flush_calls: stream.flush_calls }
}

pub fn simple(entry: Entry, req: &[u8]) -> Outcome {
    let mut s = MockStream::new(req);
    run(entry, &mut s)
}

pub fn method_of(req: &[u8]) -> String {
    let end = req.iter().position(|c| *c == b' ').unwrap_or(req.len().min(10));
    String::from_utf8_lossy(&req[..end]).to_string()
}

pub fn body_rule_for(req: &[u8]) -> BodyRule {
    let m = method_of(req).to_ascii_uppercase();
    if m == "HEAD" {
        BodyRule::Bodiless
    } else if m == "OPTIONS" {
        BodyRule::BodilessZero
    } else {
        BodyRule::Normal
    }
}

pub fn parse_strict(req: &[u8], raw: &[u8]) -> Result<Resp, Vec<String>> {
    parse_response(raw, body_rule_for(req))
}

/// `Application` that returns what the harness tells it to.
#[derive(Clone, Copy)]
pub enum Scripted {
    Ok200,
    Err,
    ErrText(u8),
    Panic,
    /// unwinds with a payload that is neither &str nor String (std::panic::panic_any)
    PanicAny,
    Unregistered,
}
impl Application for Scripted {
    fn execute(&self, request: &Request, _connection: &ConnectionInfo) -> Result<Response, String> {
        use crate::response::STATUS_CODE_REASON_PHRASE;
        match self {
            Scripted::Ok200 => {
                let hl = crate::header::Header::get_header_list(request);
                let cr = crate::range::Range::get_content_range(b"scripted ok".to_vec(), "text/plain".to_string());
                Ok(Response::get_response(STATUS_CODE_REASON_PHRASE.n200_ok, Some(hl), Some(vec![cr])))
            }
            Scripted::Err => Err("scripted application error".to_string()),
            Scripted::ErrText(i) => Err(crate::corpus::err_text(*i)),
            Scripted::Panic => panic!("scripted application panic"),
            Scripted::PanicAny => std::panic::panic_any(7u32),
            Scripted::Unregistered => {
                let hl = crate::header::Header::get_header_list(request);
                let mut r = Response::get_response(STATUS_CODE_REASON_PHRASE.n200_ok, Some(hl), None);
                r.status_code = 299;
                r.reason_phrase = "Whatever".to_string();
                Ok(r)
            }
        }
    }
}
impl New for Scripted {
    fn new() -> Self {
        Scripted::Ok200
    }
}
