//! Small combinatorial enumerators. All of them are complete: they visit every element of
//! the stated finite space exactly once, in a fixed (simplest-first) order.

/// Every sequence over `alphabet` (by index) of length 0..=max_len, shortest first.
pub fn sequences(alphabet_len: usize, max_len: usize, f: &mut dyn FnMut(&[usize])) {
    for len in 0..=max_len {
        sequences_exact(alphabet_len, len, f);
    }
}

/// Every sequence of exactly `len`.
pub fn sequences_exact(alphabet_len: usize, len: usize, f: &mut dyn FnMut(&[usize])) {
    if alphabet_len == 0 && len > 0 {
        return;
    }
    let mut idx = vec![0usize; len];
    loop {
        f(&idx);
        let mut i = len;
        let mut done = true;
        while i > 0 {
            i -= 1;
            idx[i] += 1;
            if idx[i] < alphabet_len {
                done = false;
                break;
            }
            idx[i] = 0;
        }
        if done {
            break;
        }
    }
}

/// Cartesian product of index ranges.
pub fn product(dims: &[usize], f: &mut dyn FnMut(&[usize])) {
    if dims.iter().any(|d| *d == 0) {
        return;
    }
    let mut idx = vec![0usize; dims.len()];
    loop {
        f(&idx);
        let mut i = dims.len();
        let mut done = true;
        while i > 0 {
            i -= 1;
            idx[i] += 1;
            if idx[i] < dims[i] {
                done = false;
                break;
            }
            idx[i] = 0;
        }
        if done {
            break;
        }
    }
}

pub fn concat_strs(alphabet: &[&str], idx: &[usize]) -> String {
    let mut s = String::new();
    for i in idx {
        s.push_str(alphabet[*i]);
    }
    s
}
pub fn concat_bytes(alphabet: &[&[u8]], idx: &[usize]) -> Vec<u8> {
    let mut s = Vec::new();
    for i in idx {
        s.extend_from_slice(alphabet[*i]);
    }
    s
}

#[cfg(test)]
mod tests {
    use super::*;
    #[test]
    fn seq_counts() {
        let mut n = 0;
        sequences(3, 3, &mut |_| n += 1);
        assert_eq!(n, 1 + 3 + 9 + 27);
        let mut m = 0;
        sequences_exact(4, 2, &mut |_| m += 1);
        assert_eq!(m, 16);
        let mut p = 0;
        product(&[2, 3, 4], &mut |_| p += 1);
        assert_eq!(p, 24);
        let mut z = 0;
        sequences_exact(4, 0, &mut |_| z += 1);
        assert_eq!(z, 1);
    }
}
