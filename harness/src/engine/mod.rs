//! Shared engine pieces: case accounting with shard partitioning by canonical-key hash,
//! failure records, panic capture, report output.

pub mod enumerate;

use serde_json::{json, Map, Value};
use std::cell::RefCell;
use std::collections::{BTreeMap, HashSet};
use std::io::Write;
use std::panic;
use std::time::Instant;

#[derive(Clone, Copy, PartialEq, Eq, Debug)]
pub enum Tier {
    Quick,
    Thorough,
}
impl Tier {
    pub fn name(&self) -> &'static str {
        match self {
            Tier::Quick => "quick",
            Tier::Thorough => "thorough",
        }
    }
    pub fn thorough(&self) -> bool {
        *self == Tier::Thorough
    }
}

#[derive(Clone, Debug)]
pub struct Failure {
    pub signature: String,
    pub case: Value,
    pub detail: String,
    /// hash of the case that was running when the failure was recorded (0: outside any case)
    pub hash: u64,
}
impl Failure {
    pub fn new(signature: String, case: Value, detail: String) -> Failure {
        Failure { signature, case, detail, hash: 0 }
    }
}

pub fn fail_cap() -> u64 {
    static CAP: std::sync::OnceLock<u64> = std::sync::OnceLock::new();
    *CAP.get_or_init(|| std::env::var("RWSV_FAILCAP").ok().and_then(|v| v.parse().ok()).unwrap_or(3))
}

pub fn fnv64(data: &[u8]) -> u64 {
    let mut h: u64 = 0xcbf29ce484222325;
    for b in data {
        h ^= *b as u64;
        h = h.wrapping_mul(0x100000001b3);
    }
    // final avalanche (fnv alone has weak low bits for short keys)
    h ^= h >> 33;
    h = h.wrapping_mul(0xff51afd7ed558ccd);
    h ^= h >> 33;
    h
}

pub struct Ctx {
    pub prop: String,
    pub tier: Tier,
    pub shard_i: u64,
    pub shard_n: u64,
    pub start: Instant,
    /// cases offered by the enumerator (all shards see all of them)
    pub offered: u64,
    /// cases owned by this shard and executed
    pub evaluations: u64,
    pub duplicates: u64,
    seen: HashSet<u64>,
    pub nontrivial: u64,
    cur_nontrivial: bool,
    pub outcomes: BTreeMap<String, u64>,
    pub failures: Vec<Failure>,
    pub failure_counts: BTreeMap<String, u64>,
    pub samples: Vec<Value>,
    pub extra: Map<String, Value>,
    pub journal: Option<std::fs::File>,
    pub resume_after: Option<u64>,
    pub skip_hashes: HashSet<u64>,
    pub cur_hash: u64,
    pub dedup: bool,
    pub notes: Vec<String>,
    pub machinery_errors: Vec<String>,
    pub bounds: Map<String, Value>,
    pub describe: Option<u64>,
    pub described: Option<Value>,
    /// history replay: execute only these cases (in enumeration order), nothing else
    pub only: Option<HashSet<u64>>,
    /// history replay: stop executing after this case
    pub until: Option<u64>,
    pub stopped: bool,
    /// history replay: append the hash of every executed case
    pub orderlog: Option<std::io::BufWriter<std::fs::File>>,
    /// crash recovery: a partial report is written here about once a second, at a case boundary
    pub checkpoint: Option<String>,
    last_checkpoint: Instant,
    /// the last case that ran to completion
    pub last_done: u64,
    /// crash recovery: skip (without executing) every case up to and including this one
    pub resuming: bool,
}

impl Ctx {
    pub fn new(prop: &str, tier: Tier, shard_i: u64, shard_n: u64) -> Ctx {
        Ctx {
            prop: prop.to_string(),
            tier,
            shard_i,
            shard_n,
            start: Instant::now(),
            offered: 0,
            evaluations: 0,
            duplicates: 0,
            seen: HashSet::new(),
            nontrivial: 0,
            cur_nontrivial: false,
            outcomes: BTreeMap::new(),
            failures: Vec::new(),
            failure_counts: BTreeMap::new(),
            samples: Vec::new(),
            extra: Map::new(),
            journal: None,
            resume_after: None,
            skip_hashes: HashSet::new(),
            cur_hash: 0,
            dedup: true,
            notes: Vec::new(),
            machinery_errors: Vec::new(),
            bounds: Map::new(),
            describe: None,
            described: None,
            only: None,
            until: None,
            stopped: false,
            orderlog: None,
            checkpoint: None,
            last_checkpoint: Instant::now(),
            last_done: 0,
            resuming: false,
        }
    }

    /// Offer a case by canonical key. True iff this shard owns it and has not run it yet.
    pub fn begin(&mut self, key: &[u8]) -> bool {
        if self.describe.is_some() {
            return false;
        }
        if !self.resuming {
            self.offered += 1;
        }
        let h = fnv64(key);
        if h % self.shard_n != self.shard_i {
            return false;
        }
        if self.dedup && !self.seen.insert(h) {
            if !self.resuming {
                self.duplicates += 1;
            }
            return false;
        }
        if self.resuming {
            if self.resume_after == Some(h) {
                self.resuming = false;
            }
            return false;
        }
        // the previous case returned: it is complete
        self.last_done = self.cur_hash;
        if self.checkpoint.is_some() && self.last_checkpoint.elapsed().as_millis() >= 1000 {
            self.write_checkpoint();
        }
        if self.skip_hashes.contains(&h) {
            return false;
        }
        if self.stopped {
            return false;
        }
        if let Some(o) = &self.only {
            if !o.contains(&h) {
                return false;
            }
        }
        if self.until == Some(h) {
            self.stopped = true; // this case still runs; nothing after it does
        }
        if let Some(l) = self.orderlog.as_mut() {
            let _ = l.write_all(&h.to_le_bytes());
        }
        self.cur_hash = h;
        if let Some(j) = self.journal.as_mut() {
            use std::os::unix::fs::FileExt;
            let _ = j.write_all_at(&h.to_le_bytes(), 0);
        }
        self.evaluations += 1;
        self.cur_nontrivial = false;
        true
    }

    /// Like `begin`, with a lazily built description of the case. In describe mode (used by
    /// the driver after a worker died) nothing is executed: the matching case is written out.
    pub fn begin_case(&mut self, key: &[u8], mk: impl FnOnce() -> Value) -> bool {
        if let Some(want) = self.describe {
            if fnv64(key) == want && self.described.is_none() {
                self.described = Some(mk());
            }
            return false;
        }
        self.begin(key)
    }

    /// Mark the current case as non-trivial by the property's stated rule.
    pub fn nontrivial(&mut self) {
        if !self.cur_nontrivial {
            self.cur_nontrivial = true;
            self.nontrivial += 1;
        }
    }

    pub fn outcome(&mut self, class: &str) {
        *self.outcomes.entry(class.to_string()).or_insert(0) += 1;
    }

    pub fn sample(&mut self, mk: impl FnOnce() -> Value) {
        // keep a spread: the 1st, 2nd, 4th, 8th ... non-trivial case, at most 12
        let n = self.nontrivial;
        if self.samples.len() < 12 && n > 0 && (n & (n - 1)) == 0 && self.cur_nontrivial {
            let v = mk();
            if !self.samples.contains(&v) {
                self.samples.push(v);
            }
        }
    }

    pub fn fail(&mut self, signature: &str, mk_case: impl FnOnce() -> Value, detail: String) {
        let c = self.failure_counts.entry(signature.to_string()).or_insert(0);
        *c += 1;
        if *c <= fail_cap() {
            self.failures.push(Failure { signature: signature.to_string(), case: mk_case(), detail, hash: self.cur_hash });
        }
    }

    /// Engines whose executions are expensive (forked servers, real sockets, time horizons) stop
    /// exploring once this worker holds `cap` distinct failing signatures: the verdict stands, and
    /// what was not run is reported as such.
    pub fn verdict_established(&mut self, cap: usize) -> bool {
        if self.failure_counts.len() >= cap {
            if !self.notes.iter().any(|n| n.starts_with("exploration stopped")) {
                self.notes.push(format!("exploration stopped in a worker after {} distinct failing signatures; the remaining cases of that worker were not run", cap));
            }
            return true;
        }
        false
    }

    pub fn machinery_error(&mut self, msg: String) {
        if self.machinery_errors.len() < 20 {
            self.machinery_errors.push(msg);
        }
    }

    pub fn bound(&mut self, k: &str, v: Value) {
        self.bounds.insert(k.to_string(), v);
    }

    pub fn add(&mut self, k: &str, n: u64) {
        let cur = self.extra.get(k).and_then(|v| v.as_u64()).unwrap_or(0);
        self.extra.insert(k.to_string(), json!(cur + n));
    }

    fn write_checkpoint(&mut self) {
        self.last_checkpoint = Instant::now();
        if let Some(p) = self.checkpoint.clone() {
            let mut rep = self.report();
            rep["checkpoint_hash"] = json!(self.last_done.to_string());
            let tmp = format!("{}.tmp", p);
            if std::fs::write(&tmp, serde_json::to_vec(&rep).unwrap_or_default()).is_ok() {
                let _ = std::fs::rename(&tmp, &p);
            }
        }
    }

    pub fn report(&mut self) -> Value {
        if let Some(l) = self.orderlog.as_mut() {
            let _ = l.flush();
        }
        json!({
            "property": self.prop,
            "tier": self.tier.name(),
            "shard": [self.shard_i, self.shard_n],
            "offered": self.offered,
            "evaluations": self.evaluations,
            "duplicates": self.duplicates,
            "nontrivial": self.nontrivial,
            "outcomes": self.outcomes,
            "failures": self.failures.iter().map(|f| json!({"signature": f.signature, "case": f.case, "detail": f.detail, "hash": f.hash.to_string()})).collect::<Vec<_>>(),
            "failure_counts": self.failure_counts,
            "samples": self.samples,
            "extra": self.extra,
            "bounds": self.bounds,
            "notes": self.notes,
            "machinery_errors": self.machinery_errors,
            "described": self.described,
            "wall_s": self.start.elapsed().as_secs_f64(),
        })
    }
}

// ---------------------------------------------------------------------------------------
// panic capture

#[derive(Clone, Debug)]
pub struct PanicInfo {
    pub location: String, // file:line
    pub message: String,
}

thread_local! {
    static LAST_PANIC: RefCell<Option<PanicInfo>> = RefCell::new(None);
}

pub fn install_panic_hook() {
    panic::set_hook(Box::new(|info| {
        let loc = info
            .location()
            .map(|l| format!("{}:{}", l.file().trim_start_matches("/repo/"), l.line()))
            .unwrap_or_else(|| "?".to_string());
        let msg = if let Some(s) = info.payload().downcast_ref::<&str>() {
            s.to_string()
        } else if let Some(s) = info.payload().downcast_ref::<String>() {
            s.clone()
        } else {
            "<non-string panic payload>".to_string()
        };
        LAST_PANIC.with(|p| *p.borrow_mut() = Some(PanicInfo { location: loc, message: msg }));
    }));
}

pub fn take_panic() -> Option<PanicInfo> {
    LAST_PANIC.with(|p| p.borrow_mut().take())
}

/// Run `f`; a panic is caught and returned with its location and message.
pub fn guard<T>(f: impl FnOnce() -> T) -> Result<T, PanicInfo> {
    LAST_PANIC.with(|p| *p.borrow_mut() = None);
    match panic::catch_unwind(panic::AssertUnwindSafe(f)) {
        Ok(v) => Ok(v),
        Err(_) => Err(take_panic().unwrap_or(PanicInfo { location: "?".into(), message: "?".into() })),
    }
}

/// Normalise a panic message into a class that does not depend on the offending input.
pub fn panic_class(msg: &str) -> String {
    let m = msg;
    let known = [
        ("called `Option::unwrap()` on a `None` value", "unwrap-none"),
        ("called `Result::unwrap()` on an `Err` value", "unwrap-err"),
        ("attempt to subtract with overflow", "sub-overflow"),
        ("attempt to add with overflow", "add-overflow"),
        ("attempt to multiply with overflow", "mul-overflow"),
        ("index out of bounds", "index-oob"),
        ("out of range for slice", "slice-oob"),
        ("slice index starts at", "slice-oob"),
        ("byte index", "str-index"),
        ("is not a char boundary", "str-index"),
        ("window size must be non-zero", "windows-zero"),
        ("capacity overflow", "capacity-overflow"),
        ("assertion", "assertion"),
        ("range end index", "slice-oob"),
        ("range start index", "slice-oob"),
    ];
    for (pat, class) in known {
        if m.contains(pat) {
            return class.to_string();
        }
    }
    let short: String = m.chars().take(40).collect();
    format!("other:{}", short)
}

pub fn hex(b: &[u8]) -> String {
    let mut s = String::with_capacity(b.len() * 2);
    for x in b {
        s.push_str(&format!("{:02x}", x));
    }
    s
}
pub fn unhex(s: &str) -> Vec<u8> {
    let b = s.as_bytes();
    let mut out = Vec::with_capacity(b.len() / 2);
    let mut i = 0;
    while i + 1 < b.len() {
        out.push(u8::from_str_radix(std::str::from_utf8(&b[i..i + 2]).unwrap(), 16).unwrap());
        i += 2;
    }
    out
}

/// Printable rendering of bytes for reports (lossless via escapes).
pub fn show(b: &[u8]) -> String {
    let mut s = String::new();
    for &c in b {
        match c {
            b'\r' => s.push_str("\\r"),
            b'\n' => s.push_str("\\n"),
            b'\t' => s.push_str("\\t"),
            b'\\' => s.push_str("\\\\"),
            0x20..=0x7e => s.push(c as char),
            _ => s.push_str(&format!("\\x{:02x}", c)),
        }
    }
    s
}

// ---------------------------------------------------------------------------------------
// process isolation: run a closure in a forked child so that every execution starts from
// the same initial process state (lazily initialised statics, caches, environment).

/// Ok(bytes written by the child) | Err(description of how the child died)
pub fn fork_run(f: impl FnOnce() -> Vec<u8>) -> Result<Vec<u8>, String> {
    unsafe {
        let mut fds = [0i32; 2];
        if libc::pipe(fds.as_mut_ptr()) != 0 {
            return Err("pipe failed".into());
        }
        let pid = libc::fork();
        if pid < 0 {
            libc::close(fds[0]);
            libc::close(fds[1]);
            return Err("fork failed".into());
        }
        if pid == 0 {
            libc::close(fds[0]);
            let out = match std::panic::catch_unwind(std::panic::AssertUnwindSafe(f)) {
                Ok(v) => v,
                Err(_) => b"\0CHILD-PANIC".to_vec(),
            };
            let mut off = 0usize;
            while off < out.len() {
                let n = libc::write(fds[1], out[off..].as_ptr() as *const libc::c_void, out.len() - off);
                if n <= 0 {
                    break;
                }
                off += n as usize;
            }
            libc::close(fds[1]);
            libc::_exit(0);
        }
        libc::close(fds[1]);
        let mut out = Vec::new();
        let mut buf = [0u8; 65536];
        let started = Instant::now();
        loop {
            // a child that never finishes (e.g. blocked on a lock whose owner did not survive the
            // fork) is killed after two minutes: reported as an error of the run, not as a verdict
            let mut pfd = libc::pollfd { fd: fds[0], events: libc::POLLIN, revents: 0 };
            let pr = libc::poll(&mut pfd, 1, 1000);
            if pr == 0 {
                if started.elapsed().as_secs() > 120 {
                    libc::kill(pid, libc::SIGKILL);
                    let mut st = 0i32;
                    libc::waitpid(pid, &mut st, 0);
                    libc::close(fds[0]);
                    return Err("child did not finish within 120 s (killed)".into());
                }
                continue;
            }
            let n = libc::read(fds[0], buf.as_mut_ptr() as *mut libc::c_void, buf.len());
            if n > 0 {
                out.extend_from_slice(&buf[..n as usize]);
            } else if n == 0 {
                break;
            } else {
                let e = std::io::Error::last_os_error();
                if e.kind() == std::io::ErrorKind::Interrupted {
                    continue;
                }
                break;
            }
        }
        libc::close(fds[0]);
        let mut status = 0i32;
        loop {
            let r = libc::waitpid(pid, &mut status, 0);
            if r == pid {
                break;
            }
            if r < 0 && std::io::Error::last_os_error().kind() != std::io::ErrorKind::Interrupted {
                break;
            }
        }
        if libc::WIFSIGNALED(status) {
            return Err(format!("child killed by signal {}", libc::WTERMSIG(status)));
        }
        if out == b"\0CHILD-PANIC" {
            return Err("child panicked outside a guarded call".into());
        }
        Ok(out)
    }
}
