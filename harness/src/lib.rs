//! rwsv - verification harness for bohdaq/rust-web-server.
//!
//! rws is a bin-only crate, so its modules are included here by path, under the same
//! names `src/main.rs` gives them; `crate::...` paths inside those files therefore
//! resolve unchanged. Cargo tracks the included files, so the harness is rebuilt
//! whenever /repo/src changes.
#![allow(dead_code, unused_imports, unused_variables, unused_mut, unused_must_use)]
#![allow(clippy::all)]

#[path = "/repo/src/app/mod.rs"] pub mod app;
#[path = "/repo/src/client_hint/mod.rs"] pub mod client_hint;
#[path = "/repo/src/cors/mod.rs"] pub mod cors;
#[path = "/repo/src/entry_point/mod.rs"] pub mod entry_point;
#[path = "/repo/src/ext/mod.rs"] pub mod ext;
#[path = "/repo/src/header/mod.rs"] pub mod header;
#[path = "/repo/src/http/mod.rs"] pub mod http;
#[path = "/repo/src/language/mod.rs"] pub mod language;
#[path = "/repo/src/mime_type/mod.rs"] pub mod mime_type;
#[path = "/repo/src/range/mod.rs"] pub mod range;
#[path = "/repo/src/request/mod.rs"] pub mod request;
#[path = "/repo/src/response/mod.rs"] pub mod response;
#[path = "/repo/src/server/mod.rs"] pub mod server;
#[path = "/repo/src/symbol/mod.rs"] pub mod symbol;
#[path = "/repo/src/thread_pool/mod.rs"] pub mod thread_pool;
#[path = "/repo/src/log/mod.rs"] pub mod log;
#[path = "/repo/src/body/mod.rs"] pub mod body;
#[path = "/repo/src/json/mod.rs"] pub mod json;
#[path = "/repo/src/null/mod.rs"] pub mod null;
#[path = "/repo/src/url/mod.rs"] pub mod url;
#[path = "/repo/src/core/mod.rs"] pub mod core;
#[path = "/repo/src/application/mod.rs"] pub mod application;
#[path = "/repo/src/controller/mod.rs"] pub mod controller;

/// Harness replacement for /repo/src/verif_hooks (baton scheduler entry points).
pub mod verif_hooks;
pub mod sysio;

pub mod engine;
pub mod oracle;
pub mod transport;
pub mod tree;
pub mod drive;
pub mod corpus;
pub mod props;
