//! multipart/byteranges reader (RFC 2046 framing, RFC 9110 §14.6), binary safe.
//! Lenient about the close delimiter (`--b--` or a bare final `--b`), because the
//! property only speaks about the parts.

#[derive(Clone, Debug, PartialEq, Eq)]
pub struct Part {
    pub content_type: Option<String>,
    pub content_range: Option<String>,
    pub headers: Vec<(String, String)>,
    pub body: Vec<u8>,
}

pub fn boundary_from_content_type(ct: &str) -> Option<String> {
    let lower = ct.to_ascii_lowercase();
    if !lower.trim_start().starts_with("multipart/byteranges") {
        return None;
    }
    for p in ct.split(';').skip(1) {
        let p = p.trim();
        if p.len() >= 9 && p[..9].eq_ignore_ascii_case("boundary=") {
            let b = p[9..].trim().trim_matches('"');
            if !b.is_empty() {
                return Some(b.to_string());
            }
        }
    }
    None
}

fn find(hay: &[u8], needle: &[u8], from: usize) -> Option<usize> {
    if needle.is_empty() || hay.len() < needle.len() || from > hay.len() - needle.len() {
        return None;
    }
    (from..=hay.len() - needle.len()).find(|&i| &hay[i..i + needle.len()] == needle)
}

pub fn parse(body: &[u8], boundary: &str) -> Result<Vec<Part>, String> {
    let delim = format!("--{}", boundary).into_bytes();
    let mut parts = Vec::new();
    // opening delimiter: at the very start (an optional preamble CRLF is tolerated)
    let mut pos = 0usize;
    if body.starts_with(b"\r\n") {
        pos = 2;
    }
    if !body[pos..].starts_with(&delim) {
        return Err("body does not start with the boundary delimiter".to_string());
    }
    pos += delim.len();
    loop {
        // after a delimiter: "--" (close), CRLF (part follows), or end of body (bare final delimiter)
        if pos == body.len() {
            break;
        }
        if body[pos..].starts_with(b"--") {
            break;
        }
        if !body[pos..].starts_with(b"\r\n") {
            return Err(format!("delimiter at {} not followed by CRLF", pos));
        }
        pos += 2;
        // headers
        let mut headers = Vec::new();
        loop {
            let e = find(body, b"\r\n", pos).ok_or_else(|| "unterminated part header".to_string())?;
            let line = &body[pos..e];
            pos = e + 2;
            if line.is_empty() {
                break;
            }
            let s = std::str::from_utf8(line).map_err(|_| "non UTF-8 part header".to_string())?;
            let (n, v) = s.split_once(':').ok_or_else(|| format!("part header without colon: {:?}", s))?;
            headers.push((n.trim().to_string(), v.trim().to_string()));
        }
        // body up to CRLF + delimiter
        let mut needle = b"\r\n".to_vec();
        needle.extend_from_slice(&delim);
        let e = find(body, &needle, pos).ok_or_else(|| "part body not terminated by a delimiter".to_string())?;
        let pbody = body[pos..e].to_vec();
        pos = e + needle.len();
        let get = |name: &str| headers.iter().find(|(n, _)| n.eq_ignore_ascii_case(name)).map(|(_, v)| v.clone());
        parts.push(Part { content_type: get("Content-Type"), content_range: get("Content-Range"), headers: headers.clone(), body: pbody });
    }
    if parts.is_empty() {
        return Err("no parts".to_string());
    }
    Ok(parts)
}

/// "bytes a-b/L" -> (a, b, L) with full-precision integers.
pub fn parse_content_range(v: &str) -> Option<(u128, u128, u128)> {
    let v = v.trim();
    let rest = v.strip_prefix("bytes ")?;
    let (r, l) = rest.split_once('/')?;
    let (a, b) = r.split_once('-')?;
    let ok = |s: &str| !s.is_empty() && s.bytes().all(|c| c.is_ascii_digit());
    if !(ok(a) && ok(b) && ok(l)) {
        return None;
    }
    Some((a.parse().ok()?, b.parse().ok()?, l.parse().ok()?))
}
