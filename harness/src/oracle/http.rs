//! Strict HTTP/1.x response parser (RFC 9112 message syntax) + IANA status registry.

#[derive(Clone, Debug, PartialEq, Eq)]
pub struct Resp {
    pub version: String,
    pub code: u16,
    pub reason: String,
    pub headers: Vec<(String, String)>,
    pub body: Vec<u8>,
}

impl Resp {
    pub fn get(&self, name: &str) -> Option<&str> {
        self.headers.iter().find(|(n, _)| n.eq_ignore_ascii_case(name)).map(|(_, v)| v.as_str())
    }
    pub fn all(&self, name: &str) -> Vec<&str> {
        self.headers.iter().filter(|(n, _)| n.eq_ignore_ascii_case(name)).map(|(_, v)| v.as_str()).collect()
    }
    pub fn count(&self, name: &str) -> usize {
        self.headers.iter().filter(|(n, _)| n.eq_ignore_ascii_case(name)).count()
    }
}

/// IANA HTTP status code registry (independent copy; phrases with their historical variants).
pub const REGISTRY: &[(u16, &[&str])] = &[
    (100, &["Continue"]),
    (101, &["Switching Protocols"]),
    (102, &["Processing"]),
    (103, &["Early Hints"]),
    (200, &["OK"]),
    (201, &["Created"]),
    (202, &["Accepted"]),
    (203, &["Non-Authoritative Information"]),
    (204, &["No Content"]),
    (205, &["Reset Content"]),
    (206, &["Partial Content"]),
    (207, &["Multi-Status"]),
    (208, &["Already Reported"]),
    (226, &["IM Used"]),
    (300, &["Multiple Choices"]),
    (301, &["Moved Permanently"]),
    (302, &["Found"]),
    (303, &["See Other"]),
    (304, &["Not Modified"]),
    (305, &["Use Proxy"]),
    (307, &["Temporary Redirect"]),
    (308, &["Permanent Redirect"]),
    (400, &["Bad Request"]),
    (401, &["Unauthorized"]),
    (402, &["Payment Required"]),
    (403, &["Forbidden"]),
    (404, &["Not Found"]),
    (405, &["Method Not Allowed"]),
    (406, &["Not Acceptable"]),
    (407, &["Proxy Authentication Required"]),
    (408, &["Request Timeout"]),
    (409, &["Conflict"]),
    (410, &["Gone"]),
    (411, &["Length Required"]),
    (412, &["Precondition Failed"]),
    (413, &["Content Too Large", "Payload Too Large", "Request Entity Too Large"]),
    (414, &["URI Too Long", "Request-URI Too Long"]),
    (415, &["Unsupported Media Type"]),
    (416, &["Range Not Satisfiable", "Requested Range Not Satisfiable"]),
    (417, &["Expectation Failed"]),
    (418, &["I'm a teapot", "(Unused)"]),
    (421, &["Misdirected Request"]),
    (422, &["Unprocessable Content", "Unprocessable Entity"]),
    (423, &["Locked"]),
    (424, &["Failed Dependency"]),
    (425, &["Too Early"]),
    (426, &["Upgrade Required"]),
    (428, &["Precondition Required"]),
    (429, &["Too Many Requests"]),
    (431, &["Request Header Fields Too Large"]),
    (451, &["Unavailable For Legal Reasons"]),
    (500, &["Internal Server Error"]),
    (501, &["Not Implemented"]),
    (502, &["Bad Gateway"]),
    (503, &["Service Unavailable"]),
    (504, &["Gateway Timeout"]),
    (505, &["HTTP Version Not Supported"]),
    (506, &["Variant Also Negotiates"]),
    (507, &["Insufficient Storage"]),
    (508, &["Loop Detected"]),
    (510, &["Not Extended"]),
    (511, &["Network Authentication Required"]),
];

fn norm_phrase(s: &str) -> String {
    s.chars().filter(|c| c.is_ascii_alphanumeric()).map(|c| c.to_ascii_lowercase()).collect()
}

pub fn phrase_matches(code: u16, reason: &str) -> Result<(), String> {
    match REGISTRY.iter().find(|(c, _)| *c == code) {
        None => Err(format!("status code {} is not registered", code)),
        Some((_, phrases)) => {
            let n = norm_phrase(reason);
            if phrases.iter().any(|p| norm_phrase(p) == n) {
                Ok(())
            } else {
                Err(format!("reason phrase {:?} does not match status {}", reason, code))
            }
        }
    }
}

fn is_tchar(c: u8) -> bool {
    matches!(c, b'!' | b'#' | b'$' | b'%' | b'&' | b'\'' | b'*' | b'+' | b'-' | b'.' | b'^' | b'_' | b'`' | b'|' | b'~')
        || c.is_ascii_alphanumeric()
}

fn find(hay: &[u8], needle: &[u8], from: usize) -> Option<usize> {
    if needle.is_empty() || hay.len() < needle.len() {
        return None;
    }
    (from..=hay.len() - needle.len()).find(|&i| &hay[i..i + needle.len()] == needle)
}

#[derive(Clone, Copy, PartialEq, Eq, Debug)]
pub enum BodyRule {
    /// body = everything after the blank line; if Content-Length present it must equal it
    Normal,
    /// response to HEAD / OPTIONS: there must be no body bytes at all (Content-Length may
    /// describe the GET body for HEAD)
    Bodiless,
    /// response to OPTIONS: no body, and a Content-Length (if any) must say 0
    BodilessZero,
}

/// Parse and validate. Every complaint is a separate string with a stable prefix
/// (`status-line:`, `header:`, `framing:`, `body:`) used for failure signatures.
pub fn parse_response(raw: &[u8], rule: BodyRule) -> Result<Resp, Vec<String>> {
    let mut errs = Vec::new();
    if raw.is_empty() {
        return Err(vec!["empty: no bytes written".to_string()]);
    }
    let eol = match find(raw, b"\r\n", 0) {
        Some(i) => i,
        None => return Err(vec!["status-line: no CRLF".to_string()]),
    };
    let line = &raw[..eol];
    let line_s = match std::str::from_utf8(line) {
        Ok(s) => s,
        Err(_) => return Err(vec!["status-line: not UTF-8".to_string()]),
    };
    let mut it = line_s.splitn(3, ' ');
    let version = it.next().unwrap_or("").to_string();
    let code_s = it.next().unwrap_or("");
    let reason = it.next().unwrap_or("").to_string();
    let vb = version.as_bytes();
    if !(vb.len() == 8 && &vb[..5] == b"HTTP/" && vb[5].is_ascii_digit() && vb[6] == b'.' && vb[7].is_ascii_digit()) {
        errs.push(format!("status-line: bad version {:?}", version));
    }
    let code: u16 = if code_s.len() == 3 && code_s.bytes().all(|c| c.is_ascii_digit()) {
        code_s.parse().unwrap()
    } else {
        errs.push(format!("status-line: bad status code {:?}", code_s));
        0
    };
    if reason.bytes().any(|c| c == b'\r' || c == b'\n' || c == 0) {
        errs.push("status-line: control character in reason".to_string());
    }
    if code != 0 {
        if let Err(e) = phrase_matches(code, &reason) {
            errs.push(format!("status-line: {}", e));
        }
    }
    // header block
    let mut pos = eol + 2;
    let mut headers: Vec<(String, String)> = Vec::new();
    let body_start;
    loop {
        let e = match find(raw, b"\r\n", pos) {
            Some(i) => i,
            None => {
                errs.push("header: header block not terminated by a blank line".to_string());
                return Err(errs);
            }
        };
        let l = &raw[pos..e];
        if l.is_empty() {
            body_start = e + 2;
            break;
        }
        let colon = l.iter().position(|c| *c == b':');
        match colon {
            None => errs.push(format!("header: line without colon {:?}", crate::engine::show(l))),
            Some(0) => errs.push("header: empty field name".to_string()),
            Some(ci) => {
                let name = &l[..ci];
                if !name.iter().all(|c| is_tchar(*c)) {
                    errs.push(format!("header: invalid field name {:?}", crate::engine::show(name)));
                }
                let mut v = &l[ci + 1..];
                while let Some((f, rest)) = v.split_first() {
                    if *f == b' ' || *f == b'\t' {
                        v = rest;
                    } else {
                        break;
                    }
                }
                while let Some((f, rest)) = v.split_last() {
                    if *f == b' ' || *f == b'\t' {
                        v = rest;
                    } else {
                        break;
                    }
                }
                // the property speaks of line breaks only; a bare CR is one, NUL is not
                if v.iter().any(|c| *c == b'\r' || *c == b'\n') {
                    errs.push(format!("header: line break in value of {}", crate::engine::show(name)));
                }
                headers.push((String::from_utf8_lossy(name).to_string(), String::from_utf8_lossy(v).to_string()));
            }
        }
        pos = e + 2;
    }
    let body = raw[body_start..].to_vec();
    let resp = Resp { version, code, reason, headers, body };
    for framing in ["Content-Length", "Content-Type", "Content-Range", "Transfer-Encoding"] {
        if resp.count(framing) > 1 {
            errs.push(format!("framing: {} appears {} times", framing, resp.count(framing)));
        }
    }
    let cl = resp.get("Content-Length").map(|v| v.to_string());
    let cl_n: Option<u64> = match &cl {
        None => None,
        Some(v) => {
            if !v.is_empty() && v.bytes().all(|c| c.is_ascii_digit()) {
                v.parse().ok()
            } else {
                errs.push(format!("framing: Content-Length not a number {:?}", v));
                None
            }
        }
    };
    match rule {
        BodyRule::Normal => {
            if let Some(n) = cl_n {
                if n != resp.body.len() as u64 {
                    errs.push(format!("framing: Content-Length {} but {} body bytes", n, resp.body.len()));
                }
            }
        }
        BodyRule::Bodiless | BodyRule::BodilessZero => {
            if !resp.body.is_empty() {
                errs.push(format!("body: {} body bytes on a bodiless response", resp.body.len()));
            }
            if rule == BodyRule::BodilessZero {
                if let Some(n) = cl_n {
                    if n != 0 {
                        errs.push(format!("framing: Content-Length {} on a response that carries no body (OPTIONS)", n));
                    }
                }
            }
        }
    }
    if (code == 204 || (100..200).contains(&code) || code == 304) && !resp.body.is_empty() {
        errs.push(format!("body: status {} carries a body", code));
    }
    if errs.is_empty() {
        Ok(resp)
    } else {
        Err(errs)
    }
}

/// Lenient split used where a malformed response must still be inspected.
pub fn split_lenient(raw: &[u8]) -> (Vec<u8>, Vec<u8>) {
    match find(raw, b"\r\n\r\n", 0) {
        Some(i) => (raw[..i + 4].to_vec(), raw[i + 4..].to_vec()),
        None => (raw.to_vec(), vec![]),
    }
}

/// Mask the two timestamp headers so that responses can be compared.
pub fn mask_timestamps(raw: &[u8]) -> Vec<u8> {
    let (head, body) = split_lenient(raw);
    let mut out = Vec::new();
    for line in head.split_inclusive(|c| *c == b'\n') {
        let lower = String::from_utf8_lossy(line).to_ascii_lowercase();
        if lower.starts_with("date-unix-epoch-nanos:") {
            out.extend_from_slice(b"Date-Unix-Epoch-Nanos: <masked>\r\n");
        } else {
            out.extend_from_slice(line);
        }
    }
    out.extend_from_slice(&body);
    out
}
