//! Documented static lookup: the file itself | index.html inside the named directory |
//! the file with .html appended | nothing. Evaluated on the harness's own description of
//! the tree, never by asking the filesystem.

use crate::tree::{Node, TreeSpec};

#[derive(Clone, Debug, PartialEq, Eq)]
pub enum Looked {
    /// exactly this file (relative path inside the tree) must be served
    File(String),
    /// nothing: 404
    Nothing,
    /// the statement does not decide between these (spellings the documented lookup does
    /// not define: doubled slashes, trailing slash after a file, directory without index
    /// competing with x.html ...). Each element is an acceptable selection; `None` = 404.
    Either(Vec<Option<String>>),
}

/// Strip `?query` and `#fragment`.
pub fn path_of_target(target: &str) -> &str {
    let end = target.find(|c| c == '?' || c == '#').unwrap_or(target.len());
    &target[..end]
}

#[derive(Clone, Debug, PartialEq, Eq)]
pub enum Res {
    File(String),
    Dir(String),
    Missing,
}

/// Resolve a relative path (no leading slash, no empty / dot segments) through symlinks.
pub fn resolve(tree: &TreeSpec, rel: &str, depth: usize) -> Res {
    if depth > 8 {
        return Res::Missing;
    }
    if rel.is_empty() {
        return Res::Dir(String::new());
    }
    let mut cur = String::new();
    let segs: Vec<&str> = rel.split('/').collect();
    for (i, s) in segs.iter().enumerate() {
        let next = if cur.is_empty() { s.to_string() } else { format!("{}/{}", cur, s) };
        match tree.get(&next) {
            None => return Res::Missing,
            Some(Node::Dir) => cur = next,
            Some(Node::File(_)) => {
                return if i + 1 == segs.len() { Res::File(next) } else { Res::Missing };
            }
            Some(Node::Link(target)) => {
                // links in harness trees are relative to the tree root ("@/x") or outside ("/abs")
                let rest: Vec<&str> = segs[i + 1..].to_vec();
                if let Some(inner) = target.strip_prefix("@/") {
                    let joined = if rest.is_empty() { inner.to_string() } else { format!("{}/{}", inner, rest.join("/")) };
                    return resolve(tree, &joined, depth + 1);
                }
                if !target.starts_with('/') {
                    // relative to the directory the link lives in; ".." may climb inside the tree
                    let mut parts: Vec<&str> = if cur.is_empty() { vec![] } else { cur.split('/').collect() };
                    for seg in target.split('/').chain(rest.iter().cloned()) {
                        match seg {
                            "" | "." => {}
                            ".." => {
                                if parts.pop().is_none() {
                                    return Res::Missing; // climbs out of the tree: not modelled
                                }
                            }
                            x => parts.push(x),
                        }
                    }
                    return resolve(tree, &parts.join("/"), depth + 1);
                }
                return Res::Missing; // outside / dangling: the lookup model does not follow it
            }
        }
    }
    Res::Dir(cur)
}

pub fn lookup(tree: &TreeSpec, target: &str) -> Looked {
    let path = path_of_target(target);
    if !path.starts_with('/') {
        return Looked::Either(vec![None]);
    }
    let rel = &path[1..];
    let trailing = rel.ends_with('/');
    let core = rel.trim_end_matches('/');
    let clean = !core.split('/').any(|s| s.is_empty() || s == "." || s == "..") || core.is_empty();
    if !clean {
        // doubled slashes / dot segments: the OS may or may not reach the same file
        let squeezed: Vec<&str> = core.split('/').filter(|s| !s.is_empty() && *s != ".").collect();
        if squeezed.iter().any(|s| *s == "..") {
            return Looked::Either(vec![None]);
        }
        return match lookup(tree, &format!("/{}", squeezed.join("/"))) {
            Looked::File(f) => Looked::Either(vec![None, Some(f)]),
            Looked::Nothing => Looked::Nothing,
            Looked::Either(mut v) => {
                if !v.contains(&None) {
                    v.push(None);
                }
                Looked::Either(v)
            }
        };
    }
    if rel.ends_with("//") {
        return match lookup(tree, &format!("/{}/", core)) {
            Looked::File(f) => Looked::Either(vec![None, Some(f)]),
            other => other,
        };
    }
    let html = format!("{}.html", core);
    let html_file = if core.is_empty() { None } else { match resolve(tree, &html, 0) { Res::File(f) => Some(f), _ => None } };
    match resolve(tree, core, 0) {
        Res::File(f) => {
            if trailing {
                Looked::Either(vec![None, Some(f)])
            } else {
                Looked::File(f)
            }
        }
        Res::Dir(d) => {
            let idx = if d.is_empty() { "index.html".to_string() } else { format!("{}/index.html", d) };
            match resolve(tree, &idx, 0) {
                Res::File(f) => Looked::File(f),
                _ => match html_file {
                    // a directory without an index page competing with x.html: not decided
                    Some(h) if !trailing => Looked::Either(vec![None, Some(h)]),
                    _ => Looked::Nothing,
                },
            }
        }
        Res::Missing => match html_file {
            Some(h) if !trailing => Looked::File(h),
            Some(h) => Looked::Either(vec![None, Some(h)]),
            None => {
                // dangling / outside links are not followed by the model; leave undecided
                if tree.has_link_on(core) {
                    Looked::Either(vec![None])
                } else {
                    Looked::Nothing
                }
            }
        },
    }
}
