//! Reference models and strict parsers, written from the RFCs and the property text.
pub mod http;
pub mod byteranges;
pub mod lookup;
pub mod rangemodel;
pub mod selftest;
