//! RFC 9110 §14 byte-range model in u128 (no overflow can mirror the code's).

#[derive(Clone, Debug, PartialEq, Eq)]
pub enum Spec {
    /// first-last (inclusive)
    FromTo(u128, u128),
    /// first-
    From(u128),
    /// -suffix
    Suffix(u128),
    Malformed,
}

#[derive(Clone, Debug, PartialEq, Eq)]
pub enum Expect {
    /// every spec is well formed and lies inside the file: 206 with exactly these
    /// inclusive (a, b) ranges in this order
    Inside(Vec<(u128, u128)>),
    /// malformed or reaching outside: 416, or (clamped) correctly labelled slices.
    /// `clamped[i]` is what spec i clamps to (None: unsatisfiable or malformed).
    Outside { specs: Vec<Spec>, clamped: Vec<Option<(u128, u128)>> },
}

fn digits(s: &str) -> Option<u128> {
    if s.is_empty() || !s.bytes().all(|c| c.is_ascii_digit()) || s.len() > 38 {
        return None;
    }
    s.parse().ok()
}

/// Parse one range-spec; optional whitespace around the spec and around numbers is tolerated
/// (RFC: OWS around list elements).
pub fn parse_spec(s: &str) -> Spec {
    let s = s.trim_matches(|c| c == ' ' || c == '\t');
    let (a, b) = match s.split_once('-') {
        Some(x) => x,
        None => return Spec::Malformed,
    };
    if b.contains('-') {
        return Spec::Malformed;
    }
    match (a.is_empty(), b.is_empty()) {
        (true, true) => Spec::Malformed,
        (false, true) => digits(a).map(Spec::From).unwrap_or(Spec::Malformed),
        (true, false) => digits(b).map(Spec::Suffix).unwrap_or(Spec::Malformed),
        (false, false) => match (digits(a), digits(b)) {
            (Some(x), Some(y)) if x <= y => Spec::FromTo(x, y),
            _ => Spec::Malformed,
        },
    }
}

pub fn inside(spec: &Spec, l: u128) -> Option<(u128, u128)> {
    match spec {
        Spec::FromTo(a, b) if *b < l => Some((*a, *b)),
        Spec::From(a) if *a < l => Some((*a, l - 1)),
        Spec::Suffix(n) if *n >= 1 && *n <= l => Some((l - n, l - 1)),
        _ => None,
    }
}

pub fn clamp(spec: &Spec, l: u128) -> Option<(u128, u128)> {
    if l == 0 {
        return None;
    }
    match spec {
        Spec::FromTo(a, b) if *a < l => Some((*a, (*b).min(l - 1))),
        Spec::From(a) if *a < l => Some((*a, l - 1)),
        Spec::Suffix(n) if *n >= 1 => Some((l - (*n).min(l), l - 1)),
        _ => None,
    }
}

/// Header value -> expectation. `None` when the unit is not exactly `bytes=` (the statement
/// calls that malformed: 416, or the whole representation).
pub fn expect(value: &str, l: u128) -> Expect {
    let specs: Vec<Spec> = match value.strip_prefix("bytes=") {
        None => vec![Spec::Malformed],
        Some(rest) => rest.split(',').map(parse_spec).collect(),
    };
    let ins: Vec<Option<(u128, u128)>> = specs.iter().map(|s| inside(s, l)).collect();
    if !ins.is_empty() && ins.iter().all(|x| x.is_some()) {
        return Expect::Inside(ins.into_iter().map(|x| x.unwrap()).collect());
    }
    let clamped = specs.iter().map(|s| clamp(s, l)).collect();
    Expect::Outside { specs, clamped }
}

#[cfg(test)]
mod tests {
    use super::*;
    #[test]
    fn model() {
        assert_eq!(expect("bytes=0-0", 10), Expect::Inside(vec![(0, 0)]));
        assert_eq!(expect("bytes=2-", 10), Expect::Inside(vec![(2, 9)]));
        assert_eq!(expect("bytes=-3", 10), Expect::Inside(vec![(7, 9)]));
        assert_eq!(expect("bytes=0-1, 4-5", 10), Expect::Inside(vec![(0, 1), (4, 5)]));
        assert!(matches!(expect("bytes=0-10", 10), Expect::Outside { .. }));
        assert!(matches!(expect("bytes=10-", 10), Expect::Outside { .. }));
        assert!(matches!(expect("bytes=-0", 10), Expect::Outside { .. }));
        assert!(matches!(expect("bytes=-11", 10), Expect::Outside { .. }));
        assert!(matches!(expect("items=0-1", 10), Expect::Outside { .. }));
        assert!(matches!(expect("bytes=0-0", 0), Expect::Outside { .. }));
    }
}
