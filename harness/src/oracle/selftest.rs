//! Assertions about the reference models themselves (run by `rwsv oracle-selftest`, which
//! `./check build` executes): a broken oracle must not silently turn into passing checks.

use super::byteranges;
use super::http::{parse_response, phrase_matches, BodyRule};
use super::lookup::{lookup, Looked};
use super::rangemodel::{expect, Expect};
use crate::tree::TreeSpec;

pub fn run() -> Result<usize, String> {
    let mut n = 0usize;
    macro_rules! check {
        ($cond:expr, $msg:expr) => {{
            n += 1;
            if !$cond {
                return Err(format!("oracle self-test failed: {}", $msg));
            }
        }};
    }
    // --- RFC 4648 test vectors for the reference encoder
    for (i, o) in [("", ""), ("f", "Zg=="), ("fo", "Zm8="), ("foo", "Zm9v"), ("foob", "Zm9vYg=="), ("fooba", "Zm9vYmE="), ("foobar", "Zm9vYmFy")] {
        check!(crate::props::c18::reference_encode(i.as_bytes()) == o, format!("base64 vector {:?}", i));
    }
    check!(crate::props::c18::reference_encode(&[0xfb, 0xff, 0xfe]) == "+//+", "base64 +/ alphabet");
    // --- range model
    check!(expect("bytes=0-0", 10) == Expect::Inside(vec![(0, 0)]), "0-0");
    check!(expect("bytes=2-", 10) == Expect::Inside(vec![(2, 9)]), "2-");
    check!(expect("bytes=-3", 10) == Expect::Inside(vec![(7, 9)]), "-3");
    check!(expect("bytes=0-1, 4-5", 10) == Expect::Inside(vec![(0, 1), (4, 5)]), "two ranges with OWS");
    check!(expect("bytes=9-9,0-0", 10) == Expect::Inside(vec![(9, 9), (0, 0)]), "request order kept");
    for v in ["bytes=0-10", "bytes=10-", "bytes=-0", "bytes=-11", "items=0-1", "bytes=1-0", "bytes=a-b", "bytes=", "bytes=18446744073709551616-"] {
        check!(matches!(expect(v, 10), Expect::Outside { .. }), format!("{} must be outside", v));
    }
    check!(matches!(expect("bytes=0-0", 0), Expect::Outside { .. }), "empty file has no satisfiable range");
    if let Expect::Outside { clamped, .. } = expect("bytes=5-100,-20", 10) {
        check!(clamped == vec![Some((5, 9)), Some((0, 9))], "clamping");
    } else {
        check!(false, "clamp case must be outside");
    }
    // --- strict response parser
    let good = b"HTTP/1.1 200 OK\r\nContent-Type: text/plain\r\nContent-Length: 2\r\n\r\nhi";
    check!(parse_response(good, BodyRule::Normal).is_ok(), "good response accepted");
    let bad: Vec<(&[u8], &str)> = vec![
        (b"HTTP/1.1 200 OK\r\nContent-Length: 3\r\n\r\nhi", "length mismatch"),
        (b"HTTP/1.1 299 Whatever\r\n\r\n", "unregistered status"),
        (b"HTTP/1.1 200 Not Found\r\n\r\n", "phrase mismatch"),
        (b"HTTP/1.1 200 OK\r\nX: a\rb\r\n\r\n", "bare CR in a value"),
        (b"HTTP/1.1 200 OK\r\nno colon here\r\n\r\n", "header without colon"),
        (b"HTTP/1.1 200 OK\r\nContent-Length: 0\r\nContent-Length: 0\r\n\r\n", "framing header twice"),
        (b"HTTP/1.1 200 OK\r\nContent-Length: 0\r\n", "no blank line"),
        (b"HTTP/1.1 204 No Content\r\n\r\nx", "204 with a body"),
        (b"", "nothing"),
        (b"HTTP/1.1 200 OK\r\nBad Name: x\r\n\r\n", "space in a field name"),
    ];
    for (b, why) in bad {
        check!(parse_response(b, BodyRule::Normal).is_err(), format!("must be rejected: {}", why));
    }
    check!(parse_response(b"HTTP/1.1 200 OK\r\nContent-Length: 5\r\n\r\n", BodyRule::Bodiless).is_ok(), "HEAD may announce the GET length");
    check!(parse_response(b"HTTP/1.1 200 OK\r\nContent-Length: 5\r\n\r\n", BodyRule::BodilessZero).is_err(), "OPTIONS may not");
    check!(parse_response(b"HTTP/1.1 200 OK\r\n\r\nx", BodyRule::Bodiless).is_err(), "bodiless means no bytes");
    check!(parse_response(b"HTTP/1.1 200 OK\r\nX: a\0b\r\n\r\n", BodyRule::Normal).is_ok(), "NUL is not a line break");
    check!(phrase_matches(203, "Non Authoritative Information").is_ok(), "phrase punctuation tolerated");
    check!(phrase_matches(404, "Not Foun").is_err(), "truncated phrase rejected");
    // --- byteranges reader
    let body = b"--B\r\nContent-Type: text/plain\r\nContent-Range: bytes 0-1/10\r\n\r\nab\r\n--B\r\nContent-Type: text/plain\r\nContent-Range: bytes 4-6/10\r\n\r\n\r\n-\r\n--B";
    match byteranges::parse(body, "B") {
        Ok(parts) => {
            check!(parts.len() == 2, "two parts");
            check!(parts[0].body == b"ab" && parts[1].body == b"\r\n-", "binary-safe part bodies");
            check!(byteranges::parse_content_range(parts[1].content_range.as_deref().unwrap_or("")) == Some((4, 6, 10)), "content-range label");
        }
        Err(e) => check!(false, format!("byteranges reader: {}", e)),
    }
    check!(byteranges::parse(b"no boundary", "B").is_err(), "body without delimiter rejected");
    check!(byteranges::boundary_from_content_type("multipart/byteranges; boundary=String_separator") == Some("String_separator".to_string()), "boundary parameter");
    // --- lookup model
    let mut t = TreeSpec::new();
    t.file("a.txt", b"A").file("d/index.html", b"I").file("p.html", b"P").dir("e").file("q", b"Q").file("q.html", b"QH");
    check!(lookup(&t, "/a.txt?x=1#f") == Looked::File("a.txt".into()), "query and fragment ignored");
    check!(lookup(&t, "/d") == Looked::File("d/index.html".into()) && lookup(&t, "/d/") == Looked::File("d/index.html".into()), "directory index");
    check!(lookup(&t, "/p") == Looked::File("p.html".into()), ".html fallback");
    check!(lookup(&t, "/q") == Looked::File("q".into()), "the file itself wins over q.html");
    check!(lookup(&t, "/e") == Looked::Nothing && lookup(&t, "/missing") == Looked::Nothing, "nothing to serve");
    check!(matches!(lookup(&t, "//a.txt"), Looked::Either(_)), "doubled slash is undecided");
    Ok(n)
}
