//! C01 - requests cannot read files outside the served directory.
//! Every target = prefix . seg1/../segk . suffix over the alphabets below, every Range
//! variant, both entry points, served roots at several depths with a uniquely marked
//! secret planted at every ancestor level.

use crate::drive::{self, Entry};
use crate::engine::{enumerate, panic_class, show, Ctx, Failure};
use crate::oracle::http::split_lenient;
use crate::transport::MockStream;
use serde_json::{json, Value};
use std::path::PathBuf;

pub const SEGS: &[&str] = &[
    "..", ".", "", "sub", "ten.txt", "secret.txt", "link", "linkf", "%2e%2e", "%2E%2E", ".%2e", "..%2f", "..%5c", "...", "..;", "..\\", "deep", "up",
];
pub const PREFIXES: &[&str] = &["/", "", "//", "/./", "http://h/", "//h/", "@h/", "\\"];
pub const SUFFIXES: &[&str] = &["", "/", "?x=1", "#f", "?x=..", "/.."];
pub const RANGES: &[Option<&str>] = &[None, Some("bytes=0-"), Some("bytes=0-0,-1")];

const SECRET_TAG: &str = "SECRET-OUTSIDE-MARKER";
const LINKED_TAG: &str = "LINKED-OUTSIDE-MARKER";

pub struct Site {
    pub scratch: PathBuf,
    pub roots: Vec<PathBuf>,
}

/// scratch/secret.txt, scratch/w/secret.txt, scratch/w/a/secret.txt ... one per ancestor
/// level; root_d = scratch/w[/a[/b[/c]]]; inside every root: decoys with the same names.
pub fn build_site(depths: usize) -> Site {
    let scratch = crate::tree::scratch_root("c01");
    let names = ["w", "a", "b", "c", "d"];
    let mut cur = scratch.clone();
    let mut dirs = vec![cur.clone()];
    for n in names.iter().take(depths) {
        cur = cur.join(n);
        dirs.push(cur.clone());
    }
    for d in &dirs {
        std::fs::create_dir_all(d).unwrap();
    }
    // outside things the owner links to
    let linked_dir = scratch.join("linked-dir");
    std::fs::create_dir_all(&linked_dir).unwrap();
    std::fs::write(linked_dir.join("ten.txt"), format!("{} dir/ten.txt\n", LINKED_TAG)).unwrap();
    std::fs::write(linked_dir.join("secret.txt"), format!("{} dir/secret.txt\n", LINKED_TAG)).unwrap();
    std::fs::write(linked_dir.join("index.html"), format!("{} dir/index.html\n", LINKED_TAG)).unwrap();
    let linked_file = scratch.join("linked-file.txt");
    std::fs::write(&linked_file, format!("{} file\n", LINKED_TAG)).unwrap();
    // every dir is a root of some case and an ancestor of the deeper ones: the file
    // `secret.txt` in dir i is a secret for roots deeper than i. To tell "own" from
    // "ancestor's", each carries its level.
    for (lvl, d) in dirs.iter().enumerate() {
        std::fs::write(d.join("secret.txt"), format!("{}-LEVEL{} secret of directory level {}\n", SECRET_TAG, lvl, lvl)).unwrap();
        std::fs::write(d.join("ten.txt"), format!("ten-LEVEL{}\n", lvl)).unwrap();
        std::fs::write(d.join("secret.txt.html"), format!("{}-LEVEL{} html fallback\n", SECRET_TAG, lvl)).unwrap();
        std::fs::write(d.join("index.html"), format!("{}-LEVEL{} index\n", SECRET_TAG, lvl)).unwrap();
        let sub = d.join("sub");
        // "sub" exists in every directory as a plain directory, except where the next
        // level directory already is the child (names differ, so no clash)
        std::fs::create_dir_all(&sub).unwrap();
        std::fs::write(sub.join("ten.txt"), format!("sub-ten-LEVEL{}\n", lvl)).unwrap();
        std::fs::write(sub.join("secret.txt"), format!("{}-LEVEL{}-SUB\n", SECRET_TAG, lvl)).unwrap();
        // relative links the owner placed at depth 0, 1 and 2 of every directory; each climbs
        // exactly as far as it descended, so it stays inside (and names this level's file)
        std::fs::write(d.join("shared.txt"), format!("{}-LEVEL{} shared, reached through a relative link\n", SECRET_TAG, lvl)).unwrap();
        let deep = sub.join("deep");
        std::fs::create_dir_all(&deep).unwrap();
        std::fs::write(deep.join("ten.txt"), format!("deep-ten-LEVEL{}\n", lvl)).unwrap();
        let _ = std::os::unix::fs::symlink("shared.txt", d.join("up"));
        let _ = std::os::unix::fs::symlink("../shared.txt", sub.join("up"));
        let _ = std::os::unix::fs::symlink("../../shared.txt", deep.join("up"));
        // directories whose names contain the characters that end the path of a target
        for odd in ["c#", "q%3f", "s p"] {
            let o = d.join(odd);
            std::fs::create_dir_all(&o).unwrap();
            std::fs::write(o.join("ten.txt"), format!("odd-ten-LEVEL{}\n", lvl)).unwrap();
        }
        let _ = std::os::unix::fs::symlink(&linked_dir, d.join("link"));
        let _ = std::os::unix::fs::symlink(&linked_file, d.join("linkf"));
    }
    Site { scratch, roots: dirs[1..].to_vec() }
}

#[derive(Clone, Debug)]
pub struct Case {
    pub depth: usize, // index into roots; root level = depth + 1
    pub entry: Entry,
    pub target: String,
    pub range: Option<String>,
}

impl Case {
    pub fn to_json(&self) -> Value {
        json!({"depth": self.depth, "entry": self.entry.name(), "target": self.target, "range": self.range})
    }
    pub fn from_json(v: &Value) -> Case {
        Case {
            depth: v["depth"].as_u64().unwrap_or(0) as usize,
            entry: Entry::from_name(v["entry"].as_str().unwrap_or("process")),
            target: v["target"].as_str().unwrap_or("/").to_string(),
            range: v["range"].as_str().map(|s| s.to_string()),
        }
    }
}

/// "{A<k>}" -> absolute path of the k-th ancestor of the current directory (the served root)
pub fn expand_ancestors(target: &str) -> String {
    if !target.contains("{A") {
        return target.to_string();
    }
    let mut out = target.to_string();
    let cwd = std::env::current_dir().unwrap_or_default();
    let mut anc: Option<&std::path::Path> = cwd.parent();
    let mut k = 1;
    while let Some(a) = anc {
        out = out.replace(&format!("{{A{}}}", k), &a.to_string_lossy());
        anc = a.parent();
        k += 1;
        if k > 12 {
            break;
        }
    }
    out
}

/// Does the path part of the target climb above the root, lexically?
pub fn climbs(target: &str) -> bool {
    let path = crate::oracle::lookup::path_of_target(target);
    let mut depth: i64 = 0;
    for seg in path.split('/') {
        match seg {
            "" | "." => {}
            ".." => {
                depth -= 1;
                if depth < 0 {
                    return true;
                }
            }
            _ => depth += 1,
        }
    }
    false
}

fn class_of(target: &str) -> &'static str {
    let path = crate::oracle::lookup::path_of_target(target);
    if path.split('/').any(|s| s == "..") {
        "literal-dotdot-segment"
    } else if path.to_ascii_lowercase().contains("%2e") || path.to_ascii_lowercase().contains("%2f") || path.to_ascii_lowercase().contains("%5c") {
        "percent-encoded"
    } else if path.contains('\\') {
        "backslash"
    } else {
        "other"
    }
}

/// first real segment of the path is one of the owner's links
fn via_link(target: &str) -> bool {
    let path = crate::oracle::lookup::path_of_target(target);
    // strip an authority-like prefix the URL parser may swallow
    let first = path.split('/').find(|s| !s.is_empty() && *s != ".");
    matches!(first, Some("link") | Some("linkf")) || path.contains("/link")
}

fn contains(hay: &[u8], needle: &[u8]) -> bool {
    hay.windows(needle.len()).any(|w| w == needle)
}

/// Returns (outcome class, non-trivial?, failures)
pub fn check(case: &Case, own_level: usize) -> (String, bool, Vec<(String, String)>) {
    let mut headers: Vec<(&str, &str)> = vec![("Host", "localhost")];
    if let Some(r) = &case.range {
        headers.push(("Range", r.as_str()));
    }
    let target = expand_ancestors(&case.target);
    let case = &Case { target, ..case.clone() };
    let req = drive::get(&case.target, &headers);
    let mut s = MockStream::new(&req);
    let out = drive::run(case.entry, &mut s);
    let mut fails = Vec::new();
    let status = if out.raw.len() >= 12 { String::from_utf8_lossy(&out.raw[9..12]).to_string() } else { "none".to_string() };
    let (head, body) = split_lenient(&out.raw);
    // "climbs above the served directory" is only defined for targets that carry a path:
    // origin-form (leading slash) and absolute-form. For anything else only rule (a) applies.
    let has_path = case.target.starts_with('/') || case.target.starts_with("http://");
    let climbing = has_path && climbs(&case.target);
    // (a) no outside marker anywhere in what was written
    let own = format!("{}-LEVEL{}", SECRET_TAG, own_level);
    let mut leaked = false;
    let mut i = 0;
    let tag = SECRET_TAG.as_bytes();
    while i + tag.len() <= out.raw.len() {
        if &out.raw[i..i + tag.len()] == tag {
            let end = (i + own.len()).min(out.raw.len());
            let here = &out.raw[i..end];
            // the digit after LEVEL must be followed by a non-digit for an exact level match
            let exact_own = here == own.as_bytes() && out.raw.get(end).map(|c| !c.is_ascii_digit()).unwrap_or(true);
            if !exact_own {
                leaked = true;
                break;
            }
            i += tag.len();
        } else {
            i += 1;
        }
    }
    if leaked {
        fails.push((
            format!("C01:discloses-file-above-root:{}:{}", case.entry.name(), class_of(&case.target)),
            format!("status {} body {:?}", status, show(&body[..body.len().min(120)])),
        ));
    }
    if contains(&out.raw, LINKED_TAG.as_bytes()) && !via_link(&case.target) {
        fails.push((
            format!("C01:discloses-linked-file-without-naming-the-link:{}", case.entry.name()),
            format!("status {} body {:?}", status, show(&body[..body.len().min(120)])),
        ));
    }
    // (b) a climbing target is answered with an error status
    if climbing && out.panic.is_none() && !(status.starts_with('4') || status.starts_with('5')) {
        fails.push((
            format!("C01:climbing-target-not-an-error-status:{}:{}", case.entry.name(), class_of(&case.target)),
            format!("status {} for target {:?}", status, case.target),
        ));
    }
    let hostile = climbing || class_of(&case.target) != "other" || !case.target.starts_with('/') || case.target.starts_with("//");
    let complete = out.panic.is_none() && out.raw.len() > 12;
    let class = match &out.panic {
        Some(p) => format!("panic:{}", panic_class(&p.message)),
        None => format!(
            "{}{}{}",
            status,
            if climbing { ":climbing" } else { "" },
            if contains(&out.raw, b"shared, reached through a relative link") { ":via-relative-link" } else { "" }
        ),
    };
    (class, hostile && complete, fails)
}

pub fn run(ctx: &mut Ctx) {
    drive::default_config();
    let thorough = ctx.tier.thorough();
    let k = if thorough { 4 } else { 3 };
    let depths = if thorough { 4 } else { 3 };
    let site = build_site(depths);
    ctx.bound("segments", json!(SEGS));
    ctx.bound("max_segments", json!(k));
    ctx.bound("prefixes", json!(PREFIXES));
    ctx.bound("suffixes", json!(SUFFIXES));
    ctx.bound("ranges", json!(RANGES));
    ctx.bound("root_depths", json!(depths));
    ctx.bound("entry_points", json!(["process", "process_request"]));
    for (d, root) in site.roots.iter().enumerate() {
        std::env::set_current_dir(root).unwrap();
        for entry in [Entry::Process, Entry::Legacy] {
            for (ri, range) in RANGES.iter().enumerate() {
                for len in 0..=k {
                    enumerate::sequences_exact(SEGS.len(), len, &mut |idx| {
                        let mid: Vec<&str> = idx.iter().map(|i| SEGS[*i]).collect();
                        let mid = mid.join("/");
                        for p in PREFIXES {
                            for s in SUFFIXES {
                                let target = format!("{}{}{}", p, mid, s);
                                if target.is_empty() {
                                    continue;
                                }
                                let key = format!("{}\0{}\0{}\0{}", d, entry.name(), ri, target);
                                if !ctx.begin(key.as_bytes()) {
                                    continue;
                                }
                                let case = Case { depth: d, entry, target, range: range.map(|r| r.to_string()) };
                                let (class, nontrivial, fails) = check(&case, d + 1);
                                if nontrivial {
                                    ctx.nontrivial();
                                    ctx.sample(|| case.to_json());
                                }
                                ctx.outcome(&class);
                                for (sig, detail) in fails {
                                    ctx.fail(&sig, || case.to_json(), detail);
                                }
                            }
                        }
                    });
                }
            }
        }
    }
    // (2) the absolute file-system path of every ancestor directory as the head of the target
    //     (a path joiner that lets an absolute tail replace the root), and (3) climbing through a
    //     directory whose name contains '#', an encoded '?' or a blank: every sequence of 4
    //     segments over a reduced alphabet, with every suffix
    let odd_segs: [&str; 8] = ["..", ".", "c#", "q%3f", "s p", "sub", "secret.txt", "ten.txt"];
    ctx.bound("absolute_path_heads", json!("for every ancestor directory A of the root: A, /A, //A, /./A as the head of the target, followed by 0..1 segments and every suffix"));
    ctx.bound("odd_directory_names", json!({"names": ["c#", "q%3f", "s p"], "targets": "every sequence of 4 segments over 8 symbols x prefixes {/, //} x every suffix"}));
    for (d, root) in site.roots.iter().enumerate() {
        std::env::set_current_dir(root).unwrap();
        // "{A<k>}" stands for the absolute path of the k-th ancestor of the served root (expanded
        // when the case runs, so that a replay in another scratch directory means the same thing)
        let mut heads: Vec<String> = Vec::new();
        let mut anc: Option<&std::path::Path> = root.parent();
        let mut k = 1;
        while let Some(a) = anc {
            for pre in ["", "/", "//", "/./", "/.//"] {
                heads.push(format!("{}{{A{}}}/", pre, k));
            }
            if a == site.scratch.as_path() {
                break;
            }
            anc = a.parent();
            k += 1;
        }
        let mut targets: Vec<String> = Vec::new();
        for h in &heads {
            for tail in ["", "secret.txt", "ten.txt", "shared.txt", "sub/secret.txt", "index.html"] {
                for s in SUFFIXES {
                    targets.push(format!("{}{}{}", h, tail, s));
                }
            }
        }
        enumerate::sequences_exact(odd_segs.len(), 4, &mut |idx| {
            let mid: Vec<&str> = idx.iter().map(|i| odd_segs[*i]).collect();
            if !mid.iter().any(|m| *m == "c#" || *m == "q%3f" || *m == "s p") {
                return;
            }
            for p in ["/", "//"] {
                for s in SUFFIXES {
                    targets.push(format!("{}{}{}", p, mid.join("/"), s));
                }
            }
        });
        for entry in [Entry::Process, Entry::Legacy] {
            for (ri, range) in RANGES.iter().enumerate() {
                for target in &targets {
                    let key = format!("{}\0{}\0{}\0{}", d, entry.name(), ri, target);
                    if !ctx.begin(key.as_bytes()) {
                        continue;
                    }
                    let case = Case { depth: d, entry, target: target.clone(), range: range.map(|r| r.to_string()) };
                    let (class, nontrivial, fails) = check(&case, d + 1);
                    if nontrivial {
                        ctx.nontrivial();
                    }
                    ctx.outcome(&class);
                    for (sig, detail) in fails {
                        ctx.fail(&sig, || case.to_json(), detail);
                    }
                }
            }
        }
    }
    std::env::set_current_dir("/").unwrap();
    let _ = std::fs::remove_dir_all(&site.scratch);
}

pub fn replay(v: &Value) -> Vec<Failure> {
    drive::default_config();
    let case = Case::from_json(v);
    let site = build_site(case.depth + 1);
    std::env::set_current_dir(&site.roots[case.depth]).unwrap();
    let (_, _, fails) = check(&case, case.depth + 1);
    std::env::set_current_dir("/").unwrap();
    let _ = std::fs::remove_dir_all(&site.scratch);
    fails.into_iter().map(|(signature, detail)| Failure { signature, case: v.clone(), detail, hash: 0 }).collect()
}
