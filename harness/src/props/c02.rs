//! C02 - static resources: the right file, its exact bytes, its media type.

use crate::drive::{self, Entry};
use crate::engine::{panic_class, show, Ctx, Failure};
use crate::oracle::http::{parse_response, BodyRule};
use crate::oracle::lookup::{self, Looked};
use crate::transport::MockStream;
use crate::tree::{Node, TreeSpec};
use serde_json::{json, Value};

pub const X_KINDS: &[&str] = &["absent", "file", "emptydir", "dir+index", "dir+index-is-dir", "link->file", "link->dir+index", "dangling-link"];
pub const H_KINDS: &[&str] = &["absent", "file", "dir", "link->file"];
pub const SPELLINGS: &[&str] = &["/{x}", "/{x}/", "/{x}.html", "/{x}/index.html", "/{x}?q=1", "/{x}#f", "/{x}?q=1#f", "/{x}/?q", "//{x}", "/{x}//", "/{X}", "/{x}.htm", "/{x}/index", "/{x}.html?q#f",
    // query strings and fragments whose own text looks like path syntax
    "/{x}?r=/", "/{x}#/", "/{x}?a=/b/", "/{x}?p=.html", "/{x}#index.html", "/{x}?d=/../y", "/{x}/?r=/index.html", "/{x}?", "/{x}#"];

/// base-name shapes for the competition: plain, dotted (version-like), carrying an
/// extension of its own, non-ASCII
pub const SHAPES: &[&str] = &["n{i}_{j}", "rel-{i}.{j}", "doc{i}_{j}.txt", "caf\u{e9}{i}_{j}", "v{i}.{j}.min"];
pub fn base_name(shape: &str, i: usize, j: usize) -> String {
    shape.replace("{i}", &i.to_string()).replace("{j}", &j.to_string())
}

fn marker(rel: &str) -> Vec<u8> {
    format!("FILE:{}\n", rel).into_bytes()
}

/// One tree holding every (x kind, x.html kind) combination under a distinct base name,
/// at nesting level 0 and 1.
pub fn competition_tree() -> TreeSpec {
    let mut t = TreeSpec::new();
    // link targets
    t.file("targets/plain.txt", &marker("targets/plain.txt"));
    t.file("targets/page.html", &marker("targets/page.html"));
    t.file("targets/dir/index.html", &marker("targets/dir/index.html"));
    for lvl in ["", "lvl/"] {
      for shape in SHAPES {
        for (i, xk) in X_KINDS.iter().enumerate() {
            for (j, hk) in H_KINDS.iter().enumerate() {
                let x = format!("{}{}", lvl, base_name(shape, i, j));
                match *xk {
                    "file" => {
                        t.file(&x, &marker(&x));
                    }
                    "emptydir" => {
                        t.dir(&x);
                    }
                    "dir+index" => {
                        let p = format!("{}/index.html", x);
                        t.file(&p, &marker(&p));
                    }
                    "dir+index-is-dir" => {
                        t.dir(&format!("{}/index.html", x));
                    }
                    "link->file" => {
                        t.link(&x, "@/targets/plain.txt");
                    }
                    "link->dir+index" => {
                        t.link(&x, "@/targets/dir");
                    }
                    "dangling-link" => {
                        t.link(&x, "@/targets/does-not-exist");
                    }
                    _ => {}
                }
                let h = format!("{}.html", x);
                match *hk {
                    "file" => {
                        t.file(&h, &marker(&h));
                    }
                    "dir" => {
                        t.dir(&h);
                    }
                    "link->file" => {
                        t.link(&h, "@/targets/page.html");
                    }
                    _ => {}
                }
            }
        }
      }
    }
    t
}

/// extension -> acceptable media types (independent table: IANA registrations / MDN common types)
pub const MEDIA: &[(&str, &[&str])] = &[
    ("txt", &["text/plain"]),
    ("css", &["text/css"]),
    ("html", &["text/html"]),
    ("htm", &["text/html"]),
    ("js", &["text/javascript", "application/javascript"]),
    ("mjs", &["text/javascript", "application/javascript"]),
    ("json", &["application/json"]),
    ("png", &["image/png"]),
    ("jpg", &["image/jpeg"]),
    ("jpeg", &["image/jpeg"]),
    ("gif", &["image/gif"]),
    ("svg", &["image/svg+xml"]),
    ("webp", &["image/webp"]),
    ("avif", &["image/avif"]),
    ("apng", &["image/apng"]),
    ("bmp", &["image/bmp"]),
    ("ico", &["image/x-icon", "image/vnd.microsoft.icon"]),
    ("tif", &["image/tiff"]),
    ("tiff", &["image/tiff"]),
    ("mp3", &["audio/mpeg"]),
    ("wav", &["audio/wav", "audio/x-wav", "audio/wave"]),
    ("flac", &["audio/flac"]),
    ("aac", &["audio/aac"]),
    ("mp4", &["video/mp4"]),
    ("webm", &["video/webm"]),
    ("mov", &["video/quicktime"]),
    ("pdf", &["application/pdf"]),
    ("zip", &["application/zip"]),
    ("gz", &["application/gzip"]),
    ("tar", &["application/x-tar"]),
    ("xml", &["application/xml", "text/xml"]),
    ("csv", &["text/csv"]),
    ("woff", &["font/woff"]),
    ("woff2", &["font/woff2"]),
    ("ttf", &["font/ttf"]),
    ("otf", &["font/otf"]),
    ("bin", &["application/octet-stream"]),
    ("unknownext", &["application/octet-stream"]),
];
/// names whose type the statement leaves open (recorded, compared for invariance only)
pub const ODD_NAMES: &[&str] = &["noext", "two.dots.txt", "page.html.txt", "UPPER.TXT", "Mixed.Html", "\u{e9}t\u{e9}.txt", "archive.tar.gz", ".hidden", "trailingdot.", "a.b.c.d.css"];

/// relative links in directories with ASCII and non-ASCII names, pointing beside and above themselves
pub const REL_DIRS: &[&str] = &["plain-dir", "\u{444}\u{43e}\u{442}\u{43e}", "caf\u{e9}/\u{65e5}\u{672c}"];
pub fn relative_links_tree() -> TreeSpec {
    let mut t = TreeSpec::new();
    t.file("reltargets/up.txt", &marker("reltargets/up.txt"));
    for d in REL_DIRS {
        let depth = d.split('/').count();
        t.file(&format!("{}/real.txt", d), &marker(&format!("{}/real.txt", d)));
        t.file(&format!("{}/inner/deep.html", d), &marker(&format!("{}/inner/deep.html", d)));
        t.link(&format!("{}/beside.txt", d), "real.txt");
        t.link(&format!("{}/dot-beside.txt", d), "./real.txt");
        t.link(&format!("{}/below.html", d), "inner/deep.html");
        t.link(&format!("{}/above.txt", d), &format!("{}reltargets/up.txt", "../".repeat(depth)));
        t.link(&format!("{}/inner/back.txt", d), "../real.txt");
        t.link(&format!("{}/\u{441}\u{441}\u{44b}\u{43b}\u{43a}\u{430}.txt", d), "real.txt");
    }
    t
}

pub fn media_tree() -> TreeSpec {
    let mut t = TreeSpec::new();
    for (ext, _) in MEDIA {
        for dir in ["m1", "m2/deeper"] {
            for stem in ["alpha", "beta.gamma"] {
                let p = format!("{}/{}.{}", dir, stem, ext);
                t.file(&p, &marker(&p));
            }
        }
    }
    for n in ODD_NAMES {
        for dir in ["m1", "m2/deeper"] {
            let p = format!("{}/{}", dir, n);
            t.file(&p, &marker(&p));
        }
    }
    t
}

pub const SIZES: &[usize] = &[0, 1, 2, 3, 8191, 8192, 8193, 9999, 10000, 10001, 16383, 16384, 16385, 24576, 65536, 65537];
pub const PATTERNS: &[&str] = &["coded", "zeros", "ff", "crlf", "separator-text"];

pub fn pattern(name: &str, len: usize) -> Vec<u8> {
    match name {
        "zeros" => vec![0u8; len],
        "ff" => vec![0xFFu8; len],
        "crlf" => b"\r\n".iter().cycle().take(len).cloned().collect(),
        "separator-text" => b"line\r\n--String_separator\r\nContent-Type: x\r\n\r\n".iter().cycle().take(len).cloned().collect(),
        _ => {
            // position coded, and the first 256 bytes cover every byte value
            let mut v = crate::tree::coded(len, 99);
            for i in 0..len.min(256) {
                v[i] = i as u8;
            }
            v
        }
    }
}

pub fn fidelity_tree(thorough: bool) -> TreeSpec {
    let mut t = TreeSpec::new();
    let mut sizes: Vec<usize> = SIZES.to_vec();
    if thorough {
        sizes.push(1 << 20);
        sizes.push((1 << 20) + 1);
        sizes.push(16 << 20);
    }
    for s in sizes {
        for p in PATTERNS {
            t.file(&format!("fid/{}_{}.bin", p, s), &pattern(p, s));
        }
    }
    t
}

#[derive(Clone, Debug)]
pub struct Case {
    pub part: String, // "lookup" | "media" | "fidelity"
    pub entry: Entry,
    pub target: String,
}
impl Case {
    pub fn to_json(&self) -> Value {
        json!({"part": self.part, "entry": self.entry.name(), "target": self.target})
    }
    pub fn from_json(v: &Value) -> Case {
        Case { part: v["part"].as_str().unwrap_or("").to_string(), entry: Entry::from_name(v["entry"].as_str().unwrap_or("")), target: v["target"].as_str().unwrap_or("/").to_string() }
    }
}

fn media_ok(rel: &str, ct: &str) -> Option<bool> {
    let name = rel.rsplit('/').next().unwrap_or(rel);
    let ext = match name.rsplit_once('.') {
        Some((stem, e)) if !stem.is_empty() && !e.is_empty() => e,
        _ => return None,
    };
    if ext.chars().any(|c| c.is_ascii_uppercase()) {
        return None;
    }
    MEDIA.iter().find(|(e, _)| *e == ext).map(|(_, types)| types.iter().any(|t| ct.eq_ignore_ascii_case(t) || ct.to_ascii_lowercase().starts_with(&format!("{};", t))))
}

pub fn check(case: &Case, tree: &TreeSpec) -> (String, bool, Vec<(String, String)>, Option<(String, String)>) {
    let req = drive::get(&case.target, &[("Host", "localhost")]);
    let mut s = MockStream::new(&req);
    let out = drive::run(case.entry, &mut s);
    let pre = format!("C02:{}:{}", case.part, case.entry.name());
    let mut fails = Vec::new();
    if let Some(p) = &out.panic {
        fails.push((format!("{}:panic:{}:{}", pre, crate::props::c04::call_site(&p.location), panic_class(&p.message)), p.message.clone()));
        return ("panic".into(), true, fails, None);
    }
    let resp = match parse_response(&out.raw, BodyRule::Normal) {
        Ok(r) => r,
        Err(e) => {
            fails.push((format!("{}:malformed-response", pre), e.join("; ")));
            return ("malformed".into(), true, fails, None);
        }
    };
    let looked = lookup::lookup(tree, &case.target);
    let ct = resp.get("Content-Type").unwrap_or("").to_string();
    let mut served: Option<(String, String)> = None;
    // which file of the tree (if any) do the body bytes belong to?
    let body_is = |rel: &str| -> bool { tree.content(rel).map(|c| c == &resp.body[..]).unwrap_or(false) };
    let class;
    let production = case.entry == Entry::Process;
    match &looked {
        Looked::File(f) => {
            class = format!("file:{}", resp.code);
            // the legacy entry point only knows "the file itself" without query or fragment
            let legacy_domain = lookup::path_of_target(&case.target) == case.target && matches!(lookup::resolve(tree, case.target.trim_start_matches('/'), 0), lookup::Res::File(_)) && !case.target.ends_with('/') && !case.target.contains("//");
            if production || legacy_domain {
                if resp.code != 200 {
                    fails.push((format!("{}:servable-path-not-200:{}", pre, resp.code), format!("{:?} should serve {:?}", case.target, f)));
                } else if !body_is(f) {
                    fails.push((format!("{}:wrong-bytes", pre), format!("{:?} should serve {:?}; got {} bytes {:?}", case.target, f, resp.body.len(), show(&resp.body[..resp.body.len().min(60)]))));
                } else {
                    let want_len = tree.content(f).unwrap().len();
                    if resp.get("Content-Length").and_then(|v| v.parse::<usize>().ok()) != Some(want_len) {
                        fails.push((format!("{}:content-length", pre), format!("Content-Length {:?} for a {}-byte file", resp.get("Content-Length"), want_len)));
                    }
                    served = Some((f.clone(), ct.clone()));
                }
            } else if resp.code == 200 && !body_is(f) {
                fails.push((format!("{}:wrong-bytes", pre), format!("{:?}: 200 with bytes that are not {:?}", case.target, f)));
            }
        }
        Looked::Nothing => {
            class = format!("nothing:{}", resp.code);
            if resp.code != 404 {
                fails.push((format!("{}:nothing-to-serve-not-404:{}", pre, resp.code), format!("{:?} -> {} {:?}", case.target, resp.code, show(&resp.body[..resp.body.len().min(60)]))));
            }
            if resp.body.windows(5).any(|w| w == b"FILE:") {
                fails.push((format!("{}:not-found-answer-carries-file-content", pre), format!("{:?}", show(&resp.body[..resp.body.len().min(80)]))));
            }
        }
        Looked::Either(opts) => {
            class = format!("undecided:{}", resp.code);
            let ok404 = resp.code == 404 && !resp.body.windows(5).any(|w| w == b"FILE:");
            let okfile = resp.code == 200 && opts.iter().any(|o| o.as_ref().map(|f| body_is(f)).unwrap_or(false));
            // the statement does not decide these spellings, but "another file's content" is never acceptable
            if !(ok404 || okfile) && (resp.code == 200 || resp.body.windows(5).any(|w| w == b"FILE:")) && !opts.is_empty() && !(opts.len() == 1 && opts[0].is_none() && resp.code == 200 && !resp.body.windows(5).any(|w| w == b"FILE:")) {
                fails.push((format!("{}:undecided-spelling-served-another-files-content", pre), format!("{:?} -> {} {:?}; acceptable {:?}", case.target, resp.code, show(&resp.body[..resp.body.len().min(60)]), opts)));
            }
        }
    }
    if let Some((f, ct)) = &served {
        if let Some(false) = media_ok(f, ct) {
            fails.push((format!("{}:media-type", pre), format!("{:?} labelled {:?}", f, ct)));
        }
    }
    (class, true, fails, served)
}

fn spell(s: &str, x: &str) -> String {
    let upper: String = x.rsplit('/').next().unwrap_or(x).to_ascii_uppercase();
    let xu = match x.rsplit_once('/') {
        Some((d, _)) => format!("{}/{}", d, upper),
        None => upper,
    };
    s.replace("{x}", x).replace("{X}", &xu)
}

pub fn run(ctx: &mut Ctx) {
    drive::default_config();
    let thorough = ctx.tier.thorough();
    let root = crate::tree::scratch_root("c02");
    let mut tree = competition_tree();
    for (k, v) in media_tree().entries {
        tree.entries.insert(k, v);
    }
    for (k, v) in fidelity_tree(thorough).entries {
        tree.entries.insert(k, v);
    }
    for (k, v) in relative_links_tree().entries {
        tree.entries.insert(k, v);
    }
    tree.build(&root);
    std::env::set_current_dir(&root).unwrap();
    ctx.bound("relative_links", json!({"directories": REL_DIRS, "links": ["beside", "./beside", "below", "above (../ x depth)", "back from a sub-directory", "a link with a non-ASCII name"]}));
    ctx.bound("lookup", json!({"x": X_KINDS, "x.html": H_KINDS, "levels": 2, "name_shapes": SHAPES, "spellings": SPELLINGS}));
    ctx.bound("media", json!(format!("{} extensions x 2 stems x 2 directories, {} odd names", MEDIA.len(), ODD_NAMES.len())));
    ctx.bound("fidelity", json!({"sizes": SIZES, "patterns": PATTERNS, "thorough_adds": "1 MiB, 1 MiB+1, 16 MiB"}));
    let mut types_by_ext: std::collections::BTreeMap<String, std::collections::BTreeSet<String>> = Default::default();
    let mut run_case = |ctx: &mut Ctx, case: Case, types: &mut std::collections::BTreeMap<String, std::collections::BTreeSet<String>>| {
        let key = format!("{}\0{}\0{}", case.part, case.entry.name(), case.target);
        if !ctx.begin(key.as_bytes()) {
            return;
        }
        let (class, nt, fails, served) = check(&case, &tree);
        if nt {
            ctx.nontrivial();
            ctx.sample(|| case.to_json());
        }
        ctx.outcome(&format!("{}:{}", case.part, class));
        for (sig, detail) in fails {
            ctx.fail(&sig, || case.to_json(), detail);
        }
        if let (Some((f, ct)), true) = (served, case.part == "media") {
            let name = f.rsplit('/').next().unwrap_or("").to_string();
            let ext = name.rsplit_once('.').map(|(_, e)| e.to_string()).unwrap_or_else(|| format!("<{}>", name));
            types.entry(ext).or_default().insert(ct);
        }
    };
    for entry in [Entry::Process, Entry::Legacy] {
        // A. lookup competition
        for lvl in ["", "lvl/"] {
            for shape in SHAPES {
                for i in 0..X_KINDS.len() {
                    for j in 0..H_KINDS.len() {
                        let x = format!("{}{}", lvl, base_name(shape, i, j));
                        for sp in SPELLINGS {
                            run_case(ctx, Case { part: "lookup".into(), entry, target: spell(sp, &x) }, &mut types_by_ext);
                        }
                    }
                }
            }
        }
        // A2. relative links
        for (rel, node) in relative_links_tree().entries.iter() {
            if let Node::Link(_) = node {
                for suffix in ["", "?v=1"] {
                    run_case(ctx, Case { part: "links".into(), entry, target: format!("/{}{}", rel, suffix) }, &mut types_by_ext);
                }
            }
        }
        // B. media types
        for rel in media_tree().entries.keys() {
            if let Some(Node::File(_)) = tree.get(rel) {
                run_case(ctx, Case { part: "media".into(), entry, target: format!("/{}", rel) }, &mut types_by_ext);
            }
        }
        // C. fidelity
        for rel in fidelity_tree(thorough).entries.keys() {
            if let Some(Node::File(_)) = tree.get(rel) {
                for suffix in ["", "?v=1"] {
                    run_case(ctx, Case { part: "fidelity".into(), entry, target: format!("/{}{}", rel, suffix) }, &mut types_by_ext);
                }
            }
        }
    }
    // media type must be a function of the extension only (within this shard's view; the
    // same extension is always requested under 2 stems x 2 directories)
    for (ext, types) in &types_by_ext {
        if types.len() > 1 {
            ctx.fail("C02:media:type-depends-on-more-than-the-extension", || json!({"part":"media","entry":"process","target":format!("/m1/alpha.{}", ext)}), format!("extension {:?} labelled {:?}", ext, types));
        }
    }
    std::env::set_current_dir("/").unwrap();
    let _ = std::fs::remove_dir_all(&root);
}

pub fn replay(v: &Value) -> Vec<Failure> {
    drive::default_config();
    let root = crate::tree::scratch_root("c02r");
    let mut tree = competition_tree();
    for (k, v) in media_tree().entries {
        tree.entries.insert(k, v);
    }
    for (k, v) in fidelity_tree(false).entries {
        tree.entries.insert(k, v);
    }
    for (k, v) in relative_links_tree().entries {
        tree.entries.insert(k, v);
    }
    tree.build(&root);
    std::env::set_current_dir(&root).unwrap();
    let case = Case::from_json(v);
    let (_, _, mut fails, served) = check(&case, &tree);
    // invariance replay: compare with the sibling stems / directories
    if case.part == "media" {
        if let Some((f, ct)) = served {
            let name = f.rsplit('/').next().unwrap_or("");
            if let Some((_, ext)) = name.rsplit_once('.') {
                for dir in ["m1", "m2/deeper"] {
                    for stem in ["alpha", "beta.gamma"] {
                        let other = Case { part: "media".into(), entry: case.entry, target: format!("/{}/{}.{}", dir, stem, ext) };
                        if let (_, _, _, Some((_, ct2))) = check(&other, &tree) {
                            if ct2 != ct {
                                fails.push(("C02:media:type-depends-on-more-than-the-extension".to_string(), format!("{} vs {}", ct, ct2)));
                            }
                        }
                    }
                }
            }
        }
    }
    std::env::set_current_dir("/").unwrap();
    let _ = std::fs::remove_dir_all(&root);
    fails.into_iter().map(|(signature, detail)| Failure { signature, case: v.clone(), detail, hash: 0 }).collect()
}
