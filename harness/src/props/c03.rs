//! C03 - byte-range requests return exactly the requested bytes.

use crate::drive::{self, Entry};
use crate::engine::{enumerate, panic_class, show, Ctx, Failure};
use crate::oracle::byteranges;
use crate::oracle::http::{parse_response, BodyRule, Resp};
use crate::oracle::rangemodel::{self, Expect};
use crate::transport::MockStream;
use serde_json::{json, Value};

pub const LENGTHS: &[usize] = &[0, 1, 2, 3, 5, 10, 8191, 8192, 8193, 10000, 65537];

/// file lengths that also exist with CRLF-dense text content ("ab\r\n" repeated), so that
/// requested ranges begin and end on line breaks
pub const CRLF_LENGTHS: &[usize] = &[4, 10, 8192];
pub const CRLF_FLAG: usize = 1 << 40;

pub fn file_name(l: usize) -> String {
    if l & CRLF_FLAG != 0 {
        format!("c{}.txt", l & !CRLF_FLAG)
    } else {
        format!("r{}.bin", l)
    }
}
pub fn content(l: usize) -> Vec<u8> {
    if l & CRLF_FLAG != 0 {
        b"ab\r\n".iter().cycle().take(l & !CRLF_FLAG).cloned().collect()
    } else {
        crate::tree::coded(l, l as u32 + 1)
    }
}
pub fn all_files() -> Vec<usize> {
    let mut v: Vec<usize> = LENGTHS.to_vec();
    v.extend(CRLF_LENGTHS.iter().map(|l| l | CRLF_FLAG));
    v
}

fn offsets(l: usize) -> Vec<String> {
    let l = l as i128;
    let mut v: Vec<String> = Vec::new();
    for x in [0, 1, 2, l - 2, l - 1, l, l + 1] {
        if x >= 0 {
            v.push(x.to_string());
        }
    }
    v.push("9223372036854775808".into()); // 2^63
    v.push("18446744073709551615".into()); // u64::MAX
    v.push("18446744073709551616".into()); // u64::MAX + 1
    for s in ["", "a", "-1", " 1 ", "+1", "01"] {
        v.push(s.to_string());
    }
    v.sort();
    v.dedup();
    v
}

pub const UNITS: &[&str] = &["bytes=", "Bytes=", "bytes =", "bytes", "items="];
pub const SEPARATORS: &[&str] = &[",", ", ", " ,", ",,"];

/// the 12-element multi-range alphabet for a file of length l (needs l >= 5 to be distinct)
fn multi_alphabet(l: usize) -> Vec<String> {
    let l = l as i128;
    let m = |x: i128| x.max(0);
    vec![
        "0-0".to_string(),
        format!("1-{}", m(l - 2)),
        format!("{}-{}", m(l - 1), m(l - 1)),
        format!("0-{}", m(l - 1)),
        "2-".to_string(),
        "-1".to_string(),
        "-2".to_string(),
        format!("0-{}", l),        // last == L: reaches outside
        format!("{}-", l),         // first == L
        format!("-{}", l + 1),     // suffix longer than the file
        "1-0".to_string(),         // first > last
        "a-b".to_string(),         // malformed
    ]
}

/// spellings of the header name (field names are case-insensitive; HTTP/2-to-1 gateways send lower case)
pub const NAME_SPELLINGS: &[&str] = &["Range", "range", "RANGE", "rAnGe"];

#[derive(Clone, Debug)]
pub struct Case {
    pub entry: Entry,
    pub l: usize,
    pub value: String,
    pub name: String,
}
impl Case {
    pub fn to_json(&self) -> Value {
        json!({"entry": self.entry.name(), "file_length": self.l & !CRLF_FLAG, "crlf_text": self.l & CRLF_FLAG != 0, "range": self.value, "header_name": self.name})
    }
    pub fn from_json(v: &Value) -> Case {
        Case { entry: Entry::from_name(v["entry"].as_str().unwrap_or("")), l: v["file_length"].as_u64().unwrap_or(0) as usize | if v["crlf_text"].as_bool().unwrap_or(false) { CRLF_FLAG } else { 0 }, value: v["range"].as_str().unwrap_or("").to_string(), name: v["header_name"].as_str().unwrap_or("Range").to_string() }
    }
}

struct Got {
    a: u128,
    b: u128,
    l: u128,
    body: Vec<u8>,
    label: String,
}

/// classify one returned part against the range the model expects for it
fn part_problem(g: &Got, want: (u128, u128), file: &[u8]) -> Option<String> {
    let l = file.len() as u128;
    let (wa, wb) = want;
    let want_bytes = &file[wa as usize..=wb as usize];
    if g.body != want_bytes {
        // bytes from other offsets: the worst class
        return Some(format!("bytes-wrong"));
    }
    if g.l != l {
        return Some("label:size-wrong".to_string());
    }
    if g.a == wa && g.b == wb {
        return None;
    }
    if g.a == wa && g.b == l && wb == l - 1 {
        // bytes a..L-1 sent, labelled a-L/L
        return Some("label:end-is-L-for-a-range-reaching-the-end-of-the-file:bytes-correct".to_string());
    }
    Some("label:other".to_string())
}

/// Is the part a correctly labelled slice of the file (whatever was asked for)?
fn self_consistent(g: &Got, file: &[u8]) -> Option<String> {
    let l = file.len() as u128;
    if g.l != l {
        return Some("label:size-wrong".to_string());
    }
    if g.a <= g.b && g.b < l {
        return if g.body == &file[g.a as usize..=g.b as usize] { None } else { Some("bytes-wrong".to_string()) };
    }
    if g.b == l && g.a < l && g.body == &file[g.a as usize..] {
        return Some("label:end-is-L-for-a-range-reaching-the-end-of-the-file:bytes-correct".to_string());
    }
    if g.a <= g.b && g.b >= l && (g.a as usize) <= file.len() && g.body == &file[g.a as usize..] && !g.body.is_empty() {
        return Some("label:end-beyond-the-file:bytes-correct".to_string());
    }
    Some("bytes-do-not-match-label".to_string())
}

pub fn check(case: &Case) -> (String, bool, Vec<(String, String)>) {
    let file = content(case.l);
    let target = format!("/{}", file_name(case.l));
    check_on(case, &target, &file)
}

/// the same judgement for any served path whose current content the caller knows
pub fn check_on(case: &Case, target: &str, file: &[u8]) -> (String, bool, Vec<(String, String)>) {
    let file = file.to_vec();
    if case.name.is_empty() {
        return check_whole(case, target, &file);
    }
    let req = drive::get(target, &[("Host", "localhost"), (case.name.as_str(), case.value.as_str())]);
    let mut s = MockStream::new(&req);
    let out = drive::run(case.entry, &mut s);
    let mut fails: Vec<(String, String)> = Vec::new();
    let pre = format!("C03:{}", case.entry.name());
    if let Some(p) = &out.panic {
        fails.push((format!("{}:panic:{}:{}", pre, crate::props::c04::call_site(&p.location), panic_class(&p.message)), p.message.clone()));
        return ("panic".into(), true, fails);
    }
    let resp: Resp = match parse_response(&out.raw, BodyRule::Normal) {
        Ok(r) => r,
        Err(e) => {
            fails.push((format!("{}:malformed-response", pre), e.join("; ")));
            return ("malformed".into(), true, fails);
        }
    };
    // what the client actually sent as header value: the parser strips CR/LF only; leading
    // and trailing spaces of the value are part of it
    let exp = rangemodel::expect(&case.value, file.len() as u128);
    let l128 = file.len() as u128;
    // collect the parts of the answer
    let mut parts: Vec<Got> = Vec::new();
    let mut structure_err: Option<String> = None;
    let ct = resp.get("Content-Type").unwrap_or("").to_string();
    if resp.code == 206 || resp.code == 200 {
        if let Some(b) = byteranges::boundary_from_content_type(&ct) {
            match byteranges::parse(&resp.body, &b) {
                Ok(ps) => {
                    for p in ps {
                        match p.content_range.as_deref().and_then(byteranges::parse_content_range) {
                            Some((a, b2, l)) => parts.push(Got { a, b: b2, l, body: p.body.clone(), label: p.content_range.clone().unwrap_or_default() }),
                            None => structure_err = Some(format!("part without a parsable Content-Range: {:?}", p.content_range)),
                        }
                    }
                }
                Err(e) => structure_err = Some(e),
            }
        } else {
            match resp.get("Content-Range").and_then(byteranges::parse_content_range) {
                Some((a, b, l)) => parts.push(Got { a, b, l, body: resp.body.clone(), label: resp.get("Content-Range").unwrap_or("").to_string() }),
                None => {
                    if resp.code == 206 {
                        structure_err = Some(format!("206 without a parsable Content-Range: {:?}", resp.get("Content-Range")));
                    }
                }
            }
        }
    }
    // a single-part answer announces exactly the bytes it carries, whatever was asked for
    if (resp.code == 206 || resp.code == 200) && byteranges::boundary_from_content_type(&ct).is_none() {
        if let Some(cl) = resp.get("Content-Length") {
            if cl.trim().parse::<usize>().ok() != Some(resp.body.len()) {
                fails.push((format!("{}:content-length-differs-from-bytes-sent", pre), format!("Content-Length {} for {} body bytes ({:?} on a {}-byte file)", cl, resp.body.len(), case.value, file.len())));
            }
        }
    }
    let class;
    match &exp {
        Expect::Inside(want) => {
            class = format!("inside:{}:{}", want.len().min(3), resp.code);
            if resp.code != 206 {
                fails.push((format!("{}:status-not-206-for-satisfiable-ranges:{}", pre, resp.code), format!("status {} for {:?} on a {}-byte file", resp.code, case.value, file.len())));
            } else if let Some(e) = structure_err {
                fails.push((format!("{}:multipart-structure", pre), e));
            } else if parts.len() != want.len() {
                fails.push((format!("{}:part-count", pre), format!("{} parts for {} ranges", parts.len(), want.len())));
            } else {
                if want.len() > 1 && byteranges::boundary_from_content_type(&ct).is_none() {
                    fails.push((format!("{}:several-ranges-not-multipart", pre), ct.clone()));
                }
                // same multiset but different order?
                let mut problems: Vec<String> = Vec::new();
                for (g, w) in parts.iter().zip(want.iter()) {
                    if let Some(p) = part_problem(g, *w, &file) {
                        problems.push(format!("{} (label {:?}, {} bytes, wanted {}-{})", p, g.label, g.body.len(), w.0, w.1));
                    }
                }
                if !problems.is_empty() {
                    let mut sorted_got: Vec<(u128, usize)> = parts.iter().map(|g| (g.a, g.body.len())).collect();
                    let mut sorted_want: Vec<(u128, usize)> = want.iter().map(|w| (w.0, (w.1 - w.0 + 1) as usize)).collect();
                    let reorder = {
                        sorted_got.sort();
                        sorted_want.sort();
                        sorted_got == sorted_want && parts.iter().zip(want.iter()).any(|(g, w)| g.a != w.0)
                    };
                    let kind = if reorder { "part-order".to_string() } else { problems[0].split(' ').next().unwrap_or("").to_string() };
                    fails.push((format!("{}:{}", pre, kind), problems.join("; ")));
                }
                if parts.len() == 1 {
                    if let Some(cl) = resp.get("Content-Length") {
                        if cl.parse::<usize>().ok() != Some(resp.body.len()) {
                            fails.push((format!("{}:content-length", pre), format!("Content-Length {} for {} bytes", cl, resp.body.len())));
                        }
                    } else {
                        fails.push((format!("{}:content-length-missing", pre), "single range without Content-Length".into()));
                    }
                }
            }
        }
        Expect::Outside { specs, clamped } => {
            class = format!("outside:{}", resp.code);
            let want: Vec<(u128, u128)> = clamped.iter().filter_map(|c| *c).collect();
            if resp.code == 416 {
                // fine
            } else if resp.code == 200 && structure_err.is_none() && resp.body == file {
                // the whole representation, Range ignored: allowed for a malformed header
            } else if resp.code == 206 || resp.code == 200 {
                if let Some(e) = structure_err {
                    fails.push((format!("{}:outside:multipart-structure", pre), e));
                } else if parts.iter().any(|g| g.body.is_empty()) {
                    let k = if parts.iter().any(|g| g.body.is_empty() && g.a == l128) { "zero-byte-206-for-a-range-starting-at-the-end-of-the-file" } else { "zero-byte-206" };
                    fails.push((format!("{}:outside:{}", pre, k), format!("labels {:?}", parts.iter().map(|g| g.label.clone()).collect::<Vec<_>>())));
                } else if specs.iter().any(|s| *s == rangemodel::Spec::Malformed) {
                    // no clamp is defined for a malformed spec: any answer made of correctly
                    // labelled slices of the file is within the statement
                    let problems: Vec<String> = parts.iter().filter_map(|g| self_consistent(g, &file).map(|p| format!("{} (label {:?}, {} bytes)", p, g.label, g.body.len()))).collect();
                    if !problems.is_empty() {
                        fails.push((format!("{}:outside:{}", pre, problems[0].split(' ').next().unwrap_or("")), problems.join("; ")));
                    }
                } else if want.is_empty() || parts.len() != want.len() {
                    fails.push((format!("{}:outside:not-416-and-not-the-clamped-slices", pre), format!("status {} with {} parts; clamped specs {:?}", resp.code, parts.len(), clamped)));
                } else {
                    let mut problems = Vec::new();
                    for (g, w) in parts.iter().zip(want.iter()) {
                        if let Some(p) = part_problem(g, *w, &file) {
                            problems.push(format!("{} (label {:?}, {} bytes, clamp {}-{})", p, g.label, g.body.len(), w.0, w.1));
                        }
                    }
                    if !problems.is_empty() {
                        fails.push((format!("{}:outside:{}", pre, problems[0].split(' ').next().unwrap_or("")), problems.join("; ")));
                    }
                }
            } else {
                fails.push((format!("{}:outside:unexpected-status:{}", pre, resp.code), format!("{:?}", case.value)));
            }
        }
    }
    (class, true, fails)
}

/// no Range header: 200 with exactly the file as it is now
fn check_whole(case: &Case, target: &str, file: &[u8]) -> (String, bool, Vec<(String, String)>) {
    let req = drive::get(target, &[("Host", "localhost")]);
    let mut s = MockStream::new(&req);
    let out = drive::run(case.entry, &mut s);
    let pre = format!("C03:{}", case.entry.name());
    if let Some(p) = &out.panic {
        return ("panic".into(), true, vec![(format!("{}:panic:{}:{}", pre, crate::props::c04::call_site(&p.location), panic_class(&p.message)), p.message.clone())]);
    }
    match parse_response(&out.raw, BodyRule::Normal) {
        Err(e) => ("malformed".into(), true, vec![(format!("{}:malformed-response", pre), e.join("; "))]),
        Ok(r) => {
            if r.code != 200 {
                (format!("whole:{}", r.code), true, vec![(format!("{}:whole-file-not-200:{}", pre, r.code), format!("{} for {}", r.code, target))])
            } else if r.body != file {
                ("whole:200".into(), true, vec![(format!("{}:whole-file-bytes-wrong", pre), format!("{} bytes sent for a {}-byte file: {:?}", r.body.len(), file.len(), show(&r.body[..r.body.len().min(40)])))])
            } else {
                ("whole:200".into(), true, vec![])
            }
        }
    }
}

pub fn for_each_value(l: usize, thorough: bool, f: &mut dyn FnMut(String)) {
    let offs = offsets(l);
    for u in UNITS {
        for a in &offs {
            f(format!("{}{}-", u, a));
            f(format!("{}-{}", u, a));
            f(format!("{}{}", u, a)); // a lone number, no hyphen
            if *u == "bytes=" || thorough {
                for b in &offs {
                    f(format!("{}{}-{}", u, a, b));
                }
            }
        }
    }
    let alpha = multi_alphabet(l.max(5));
    let kmax = if thorough { 4 } else { 3 };
    for k in 2..=kmax {
        for sep in SEPARATORS {
            enumerate::sequences_exact(alpha.len(), k, &mut |idx| {
                let specs: Vec<&str> = idx.iter().map(|i| alpha[*i].as_str()).collect();
                f(format!("bytes={}", specs.join(sep)));
            });
        }
    }
    // many specs in one header: k distinct one-byte ranges, k around every plausible cap
    if l >= 300 {
        for k in [5usize, 16, 31, 32, 33, 34, 63, 64, 65, 100, 128, 129, 255, 256, 257] {
            let specs: Vec<String> = (0..k).map(|i| format!("{}-{}", i, i)).collect();
            f(format!("bytes={}", specs.join(",")));
            let rev: Vec<String> = (0..k).rev().map(|i| format!("{}-{}", i, i + 1)).collect();
            f(format!("bytes={}", rev.join(", ")));
        }
    }
    // a few fixed shapes
    for v in ["", "bytes=", "bytes=,", "bytes=0-0,", "bytes=-", "bytes=0-0-0", "bytes=0--1", "bytes= 0-0", "bytes=0 - 0", "bytes=0-0;1-1"] {
        f(v.to_string());
    }
}

fn build_tree() -> std::path::PathBuf {
    let root = crate::tree::scratch_root("c03");
    for l in all_files() {
        std::fs::write(root.join(file_name(l)), content(l)).unwrap();
    }
    root
}

pub fn run(ctx: &mut Ctx) {
    drive::default_config();
    let root = build_tree();
    std::env::set_current_dir(&root).unwrap();
    let thorough = ctx.tier.thorough();
    ctx.bound("file_lengths", json!(LENGTHS));
    ctx.bound("crlf_text_file_lengths", json!(CRLF_LENGTHS));
    ctx.bound("offsets", json!("{0,1,2,L-2,L-1,L,L+1,2^63,u64::MAX,u64::MAX+1,'', 'a','-1',' 1 ','+1','01'}"));
    ctx.bound("units", json!(UNITS));
    ctx.bound("multi_range", json!(format!("every sequence of 2..{} specs from a 12-element alphabet x separators {:?}", if thorough { 4 } else { 3 }, SEPARATORS)));
    for entry in [Entry::Process, Entry::Legacy] {
        for l in all_files() {
            for_each_value(l & !CRLF_FLAG, thorough, &mut |value| {
                let key = format!("{}\0{}\0{}", entry.name(), l, value);
                if !ctx.begin(key.as_bytes()) {
                    return;
                }
                let case = Case { entry, l, value, name: "Range".to_string() };
                let (class, nontrivial, fails) = check(&case);
                if nontrivial {
                    ctx.nontrivial();
                    ctx.sample(|| case.to_json());
                }
                ctx.outcome(&class);
                for (sig, detail) in fails {
                    ctx.fail(&sig, || case.to_json(), detail);
                }
            });
        }
    }
    // the header name in other letter cases: single ranges over every offset pair, pairs of specs
    ctx.bound("header_name_spellings", json!(NAME_SPELLINGS));
    for entry in [Entry::Process, Entry::Legacy] {
        for l in all_files() {
            for name in &NAME_SPELLINGS[1..] {
                for_each_spelled_value(l & !CRLF_FLAG, &mut |value| {
                    let key = format!("{}\0{}\0{}\0{}", entry.name(), l, value, name);
                    if !ctx.begin(key.as_bytes()) {
                        return;
                    }
                    let case = Case { entry, l, value, name: name.to_string() };
                    let (class, _, fails) = check(&case);
                    ctx.nontrivial();
                    ctx.outcome(&format!("spelled:{}", class));
                    for (sig, detail) in fails {
                        ctx.fail(&sig, || case.to_json(), detail);
                    }
                });
            }
        }
    }
    // the file changes between two requests for the same path (the statement speaks of the
    // true file size and the bytes at those offsets: of the file as it is when asked)
    ctx.bound("file_changes_between_requests", json!({"objects": MUT_OBJECTS, "changes": MUT_CHANGES, "ranges": MUT_RANGES}));
    for entry in [Entry::Process, Entry::Legacy] {
        for obj in MUT_OBJECTS {
            for change in MUT_CHANGES {
                for range in MUT_RANGES {
                    let m = Mutation { entry, object: obj.to_string(), change: change.to_string(), range: range.to_string() };
                    let key = format!("mutation\0{}\0{}\0{}\0{}", entry.name(), obj, change, range);
                    if !ctx.begin(key.as_bytes()) {
                        continue;
                    }
                    ctx.nontrivial();
                    let (class, fails) = check_mutation(&m);
                    ctx.outcome(&format!("mutation:{}", class));
                    for (sig, detail) in fails {
                        ctx.fail(&sig, || m.to_json(), detail);
                    }
                }
            }
        }
    }
    std::env::set_current_dir("/").unwrap();
    let _ = std::fs::remove_dir_all(&root);
}

pub fn for_each_spelled_value(l: usize, f: &mut dyn FnMut(String)) {
    let offs = offsets(l);
    for a in &offs {
        f(format!("bytes={}-", a));
        f(format!("bytes=-{}", a));
        for b in &offs {
            f(format!("bytes={}-{}", a, b));
        }
    }
    let alpha = multi_alphabet(l.max(5));
    enumerate::sequences_exact(alpha.len(), 2, &mut |idx| {
        f(format!("bytes={},{}", alpha[idx[0]], alpha[idx[1]]));
    });
}

pub const MUT_OBJECTS: &[&str] = &["regular-file", "link-to-file", "link-in-subdirectory"];
pub const MUT_CHANGES: &[&str] = &["rewritten-same-size", "grown", "shrunk", "emptied", "replaced-by-rename", "link-repointed-to-longer", "link-repointed-to-shorter"];
/// "" = no Range header at all (the whole file, 200)
pub const MUT_RANGES: &[&str] = &["bytes=0-", "bytes=2-5", "bytes=-3", "bytes=0-0,-1", "bytes=3-", ""];

#[derive(Clone, Debug)]
pub struct Mutation {
    pub entry: Entry,
    pub object: String,
    pub change: String,
    pub range: String,
}
impl Mutation {
    pub fn to_json(&self) -> Value {
        json!({"kind": "mutation", "entry": self.entry.name(), "object": self.object, "change": self.change, "range": self.range})
    }
    pub fn from_json(v: &Value) -> Mutation {
        Mutation { entry: Entry::from_name(v["entry"].as_str().unwrap_or("")), object: v["object"].as_str().unwrap_or("").to_string(), change: v["change"].as_str().unwrap_or("").to_string(), range: v["range"].as_str().unwrap_or("").to_string() }
    }
}

/// request, change the file, request again; both answers judged against the content at that time.
/// Runs in the current directory (the served root) under mut/<unique>/.
pub fn check_mutation(m: &Mutation) -> (String, Vec<(String, String)>) {
    static N: std::sync::atomic::AtomicUsize = std::sync::atomic::AtomicUsize::new(0);
    let n = N.fetch_add(1, std::sync::atomic::Ordering::SeqCst);
    let dir = format!("mut/{}-{}", std::process::id(), n);
    let _ = std::fs::create_dir_all(format!("{}/sub", dir));
    let first = crate::tree::coded_text(23, 11);
    let longer = crate::tree::coded_text(40, 12);
    let shorter = crate::tree::coded_text(9, 13);
    let same = crate::tree::coded_text(23, 14);
    let w = |p: &str, c: &[u8]| std::fs::write(p, c).unwrap();
    let real = format!("{}/real.txt", dir);
    w(&real, &first);
    w(&format!("{}/longer.txt", dir), &longer);
    w(&format!("{}/shorter.txt", dir), &shorter);
    let (served, link): (String, Option<String>) = match m.object.as_str() {
        "link-to-file" => {
            let l = format!("{}/current.txt", dir);
            std::os::unix::fs::symlink("real.txt", &l).unwrap();
            (l.clone(), Some(l))
        }
        "link-in-subdirectory" => {
            let l = format!("{}/sub/current.txt", dir);
            std::os::unix::fs::symlink("../real.txt", &l).unwrap();
            (l.clone(), Some(l))
        }
        _ => (real.clone(), None),
    };
    let target = format!("/{}", served);
    let case = Case { entry: m.entry, l: 0, value: m.range.clone(), name: if m.range.is_empty() { String::new() } else { "Range".to_string() } };
    let mut fails = Vec::new();
    let (c1, _, f1) = check_on(&case, &target, &first);
    for (sig, d) in f1 {
        fails.push((sig, format!("before the change: {}", d)));
    }
    let up = if m.object == "link-in-subdirectory" { "../" } else { "" };
    let second: Vec<u8> = match m.change.as_str() {
        "rewritten-same-size" => {
            w(&real, &same);
            same.clone()
        }
        "grown" => {
            w(&real, &longer);
            longer.clone()
        }
        "shrunk" => {
            w(&real, &shorter);
            shorter.clone()
        }
        "emptied" => {
            w(&real, b"");
            Vec::new()
        }
        "replaced-by-rename" => {
            let tmp = format!("{}/real.txt.new", dir);
            w(&tmp, &longer);
            std::fs::rename(&tmp, &real).unwrap();
            longer.clone()
        }
        "link-repointed-to-longer" | "link-repointed-to-shorter" => {
            let (name, c) = if m.change.ends_with("longer") { ("longer.txt", longer.clone()) } else { ("shorter.txt", shorter.clone()) };
            match &link {
                Some(l) => {
                    // the usual deploy step: ln -s new tmp && mv tmp link
                    let tmp = format!("{}.tmp", l);
                    std::os::unix::fs::symlink(format!("{}{}", up, name), &tmp).unwrap();
                    std::fs::rename(&tmp, l).unwrap();
                    c
                }
                None => {
                    // a regular file has no link to re-point: the other file is moved over it
                    std::fs::copy(format!("{}/{}", dir, name), &real).unwrap();
                    c
                }
            }
        }
        _ => first.clone(),
    };
    let (c2, _, f2) = check_on(&case, &target, &second);
    for (sig, d) in f2 {
        fails.push((sig, format!("after the change ({} {}): {}", m.object, m.change, d)));
    }
    let _ = std::fs::remove_dir_all(&dir);
    (format!("{}>{}", c1, c2), fails)
}

pub fn replay(v: &Value) -> Vec<Failure> {
    drive::default_config();
    let root = build_tree();
    std::env::set_current_dir(&root).unwrap();
    if v["kind"].as_str() == Some("mutation") {
        let (_, fails) = check_mutation(&Mutation::from_json(v));
        std::env::set_current_dir("/").unwrap();
        let _ = std::fs::remove_dir_all(&root);
        return fails.into_iter().map(|(signature, detail)| Failure { signature, case: v.clone(), detail, hash: 0 }).collect();
    }
    let case = Case::from_json(v);
    let (_, _, fails) = check(&case);
    std::env::set_current_dir("/").unwrap();
    let _ = std::fs::remove_dir_all(&root);
    fails.into_iter().map(|(signature, detail)| Failure { signature, case: v.clone(), detail, hash: 0 }).collect()
}
