//! C04 - every connection is answered; no input can crash the server.

use crate::app::App;
use crate::core::New;
use crate::corpus::{self, AppKind, Case, ReadKind};
use crate::drive::{self, Entry, Outcome, Scripted};
use crate::engine::{panic_class, show, Ctx, Failure};
use crate::oracle::http::{parse_response, BodyRule};
use crate::transport::MockStream;
use serde_json::{json, Value};

const METHODS: &[&str] = &["GET", "HEAD", "POST", "PUT", "DELETE", "CONNECT", "OPTIONS", "TRACE", "PATCH"];
const VERSIONS: &[&str] = &["HTTP/0.9", "HTTP/1.0", "HTTP/1.1", "HTTP/2.0"];

/// Independent, conservative request-line check: true only when the statement of C14
/// says parsing must fail (incomplete line, unknown method or version, invalid UTF-8).
pub fn definitely_unparseable(req: &[u8]) -> bool {
    let end = req.iter().position(|c| *c == b'\n').map(|i| i + 1).unwrap_or(req.len());
    let line = match std::str::from_utf8(&req[..end]) {
        Ok(s) => s,
        Err(_) => return true,
    };
    let toks: Vec<&str> = line.trim().split(' ').filter(|t| !t.is_empty()).collect();
    if toks.len() < 3 {
        return true;
    }
    let m = toks[0].to_ascii_uppercase();
    let v = toks[toks.len() - 1].to_ascii_uppercase();
    !METHODS.contains(&m.as_str()) || !VERSIONS.contains(&v.as_str())
}

/// The source line at a panic location, as the stable identity of the call site.
pub fn call_site(location: &str) -> String {
    let (file, line) = match location.rsplit_once(':') {
        Some(x) => x,
        None => return location.to_string(),
    };
    let path = if file.starts_with('/') { file.to_string() } else { format!("/repo/{}", file) };
    let n: usize = line.parse().unwrap_or(0);
    let text = std::fs::read_to_string(&path).ok().and_then(|s| s.lines().nth(n.saturating_sub(1)).map(|l| l.split_whitespace().collect::<Vec<_>>().join(" ")));
    match text {
        Some(t) if file.starts_with("src/") => {
            let t: String = t.chars().take(70).collect();
            format!("{}`{}`", file, t)
        }
        _ => {
            // panics raised inside std / dependencies: keep the file, drop the line
            let short = file.rsplit("/library/").next().unwrap_or(file);
            let short = match short.split_once("registry/src/") {
                Some((_, rest)) => rest.split_once('/').map(|(_, r)| r).unwrap_or(rest),
                None => short,
            };
            short.to_string()
        }
    }
}

pub fn execute(case: &Case) -> (Outcome, Vec<u8>) {
    let mut s = MockStream::new(&case.bytes).with_read(case.read.plan());
    let out = match case.app {
        AppKind::Shipped => drive::run_with(case.entry, &mut s, App::new(), case.request_size),
        AppKind::Ok200 => drive::run_with(case.entry, &mut s, Scripted::Ok200, case.request_size),
        AppKind::Err => drive::run_with(case.entry, &mut s, Scripted::Err, case.request_size),
        AppKind::ErrText(i) => drive::run_with(case.entry, &mut s, Scripted::ErrText(i), case.request_size),
        AppKind::Unregistered => drive::run_with(case.entry, &mut s, Scripted::Unregistered, case.request_size),
    };
    (out, case.bytes.clone())
}

/// (outcome class, failures)
pub fn judge(case: &Case, out: &Outcome) -> (String, Vec<(String, String)>) {
    let mut fails = Vec::new();
    if let Some(p) = &out.panic {
        let site = call_site(&p.location);
        fails.push((format!("C04:panic:{}:{}:{}", case.entry.name(), site, panic_class(&p.message)), format!("{} at {}", p.message, p.location)));
        return (format!("panic:{}", panic_class(&p.message)), fails);
    }
    if out.raw.is_empty() {
        fails.push((format!("C04:no-response:{}:{}", case.entry.name(), case.family), "nothing was written to the connection".to_string()));
        return ("no-response".to_string(), fails);
    }
    // exactly one complete response: the strict parser must accept the bytes under the
    // normal rule or (for HEAD/OPTIONS requests) the bodiless rule
    let r = parse_response(&out.raw, BodyRule::Normal).or_else(|e1| {
        if drive::body_rule_for(&case.bytes) != BodyRule::Normal {
            parse_response(&out.raw, BodyRule::Bodiless)
        } else {
            Err(e1)
        }
    });
    let status;
    match r {
        Ok(resp) => {
            status = resp.code;
            // a second response glued behind the first would show as body bytes beyond Content-Length: already rejected by the strict parser
        }
        Err(errs) => {
            let errs: Vec<String> = if case.app == AppKind::Unregistered { errs.into_iter().filter(|e| !e.starts_with("status-line: status code") && !e.starts_with("status-line: reason")).collect() } else { errs };
            if !errs.is_empty() {
                let first = errs[0].split(':').take(2).collect::<Vec<_>>().join(":");
                let first: String = first.chars().take(60).collect();
                fails.push((format!("C04:malformed-response:{}:{}", case.entry.name(), first), errs.join("; ")));
                return ("malformed".to_string(), fails);
            }
            status = 299;
        }
    }
    let handler_err = case.app == AppKind::Err || matches!(case.app, AppKind::ErrText(_));
    // a valid request that fits the buffer (the padded GET of the fill family) is served
    if case.family == "fill" && case.app == AppKind::Shipped && case.read == ReadKind::Full && case.bytes.len() as i64 <= case.request_size && status != 200 {
        fails.push((format!("C04:valid-request-that-fits-the-buffer-refused:{}", case.entry.name()), format!("status {} for a valid {}-byte request (buffer {})", status, case.bytes.len(), case.request_size)));
    }
    let must_be_error = (case.read != ReadKind::Full) || handler_err || (case.app == AppKind::Shipped && definitely_unparseable(&case.bytes[..case.bytes.len().min(case.request_size.max(0) as usize)]));
    if must_be_error && !(400..600).contains(&status) {
        let why = if case.read != ReadKind::Full { "transport-read-failed" } else if handler_err { "handler-error" } else { "unparseable-request" };
        fails.push((format!("C04:error-not-reported:{}:{}", case.entry.name(), why), format!("status {} for a request that cannot be served ({})", status, why)));
    }
    (format!("{}", status), fails)
}

pub fn run(ctx: &mut Ctx) {
    drive::default_config();
    let root = crate::tree::scratch_root("c04");
    corpus::tree().build(&root);
    std::env::set_current_dir(&root).unwrap();
    let thorough = ctx.tier.thorough();
    ctx.bound("seeds", json!(corpus::seeds().iter().map(|s| s.name).collect::<Vec<_>>()));
    ctx.bound("hostile_alphabet", json!(corpus::hostile().iter().map(|h| show(&h[..h.len().min(24)])).collect::<Vec<_>>()));
    ctx.bound("deviations", json!("every single deviation and every pair of deviations on different tokens"));
    ctx.bound("families", json!(["mutation1", "mutation2(thorough)", "truncate@every byte", "transport-read{eof,err}", "app{ok,err,unregistered}", "header-lines k in {0..3, 2^i, 2^i+1, max} x 4 line shapes x buffers {10000,16000,1000000}", "form-byte 0..255 x 2 endpoints", "fill around the buffer size"]));
    corpus::for_each(thorough, &mut |case: Case| {
        let key = case.key();
        if !ctx.begin_case(&key, || case.to_json()) {
            return;
        }
        let (out, _) = execute(&case);
        let (class, fails) = judge(&case, &out);
        ctx.add(&format!("cases_{}", case.family), 1);
        // non-trivial: the bytes differ from every unmutated seed, or a fault was injected
        let mutated = !(case.family == "mutation1" && case.gen["devs"].as_array().map(|a| a.is_empty()).unwrap_or(false));
        if mutated {
            ctx.nontrivial();
            ctx.sample(|| case.to_json());
        }
        ctx.outcome(&format!("{}:{}", case.family, class));
        for (sig, detail) in fails {
            ctx.fail(&sig, || case.to_json(), detail);
        }
    });
    std::env::set_current_dir("/").unwrap();
    let _ = std::fs::remove_dir_all(&root);
}

pub fn replay(v: &Value) -> Vec<Failure> {
    drive::default_config();
    let root = crate::tree::scratch_root("c04r");
    corpus::tree().build(&root);
    std::env::set_current_dir(&root).unwrap();
    let case = corpus::case_from_json(v);
    let (out, _) = execute(&case);
    let (_, fails) = judge(&case, &out);
    std::env::set_current_dir("/").unwrap();
    let _ = std::fs::remove_dir_all(&root);
    fails.into_iter().map(|(signature, detail)| Failure { signature, case: v.clone(), detail, hash: 0 }).collect()
}
