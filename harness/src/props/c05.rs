//! C05 - responses are well-formed, self-consistent HTTP and delivered in full.
//! (a) strict parsing of every response of the C04 corpus and of the reflection cases,
//! (b) no echoed client text may add or split header lines,
//! (c) transport fault enumeration: every first-chunk size over the head, uniform chunk
//!     sizes, an interrupted first write - the bytes accepted by the peer must be the
//!     whole serialisation.

use crate::app::App;
use crate::core::New;
use crate::corpus::{self, AppKind, ReadKind};
use crate::drive::{self, Entry};
use crate::engine::{enumerate, panic_class, show, Ctx, Failure};
use crate::oracle::http::{mask_timestamps, parse_response, split_lenient, BodyRule};
use crate::props::c04;
use crate::transport::{MockStream, WritePlan};
use serde_json::{json, Value};
use std::io::ErrorKind;

pub const REFLECT_ALPHABET: &[&str] = &["a", ":", " ", "\r", "\n", "\0", "\r\n", "\r\nX-Injected: y", ",", "\u{e9}"];
pub const REFLECT_HEADERS: &[&str] = &["Origin", "Access-Control-Request-Method", "Access-Control-Request-Headers", "Range", "Content-Type", "Host"];

fn strict_class(errs: &[String]) -> String {
    // "framing: Content-Length 10 on a response..." -> "framing: Content-Length on a response"
    let first = &errs[0];
    let s: String = first.chars().filter(|c| !c.is_ascii_digit()).collect();
    let s = s.split('"').next().unwrap_or("").trim().to_string();
    s.chars().take(70).collect::<String>().replace("  ", " ")
}

/// part (a)+(b) for one request; `benign_names`: header names of the response to the
/// benign sibling request (None: no comparison)
pub fn judge_wellformed(pre: &str, req: &[u8], raw: &[u8], unregistered_app: bool, benign_names: Option<&Vec<String>>) -> (String, Vec<(String, String)>) {
    let mut fails = Vec::new();
    let entry = pre.rsplit(':').next().unwrap_or("");
    let method_rule = drive::body_rule_for(req);
    // rules under which the bytes may be read: the one of the request's method; for a request
    // the server cannot parse (it cannot know the method) or any error answer, also the normal one
    let first = parse_response(raw, method_rule);
    let parsed = match first {
        Ok(r) => Ok(r),
        Err(e1) => {
            let alt = if method_rule != BodyRule::Normal { parse_response(raw, BodyRule::Normal).ok() } else { None };
            match alt {
                Some(r) if r.code >= 400 || c04::definitely_unparseable(req) => Ok(r),
                _ => Err(e1),
            }
        }
    };
    match parsed {
        Ok(resp) => {
            if let Some(names) = benign_names {
                let got: Vec<String> = resp.headers.iter().map(|(n, _)| n.to_ascii_lowercase()).collect();
                let added: Vec<&String> = got.iter().filter(|n| !names.contains(n)).collect();
                if !added.is_empty() {
                    fails.push((format!("{}:echoed-text-added-a-header-line", pre), format!("{:?}", added)));
                }
                for n in &got {
                    if got.iter().filter(|x| *x == n).count() > names.iter().filter(|x| *x == n).count().max(1) {
                        fails.push((format!("{}:echoed-text-duplicated-a-header-line", pre), n.clone()));
                        break;
                    }
                }
            }
            (format!("ok:{}", resp.code), fails)
        }
        Err(errs) => {
            let errs: Vec<String> = if unregistered_app { errs.into_iter().filter(|e| !e.starts_with("status-line: status code") && !e.starts_with("status-line: reason")).collect() } else { errs };
            if errs.is_empty() {
                return ("ok:app-status".into(), fails);
            }
            if errs.len() == 1 && errs[0].contains("on a response that carries no body (OPTIONS)") {
                // one defect, one signature, whichever corpus found it
                fails.push((format!("C05:{}:OPTIONS-answer-carries-the-Content-Length-of-the-GET-body-and-no-body", entry), errs.join("; ")));
                return ("options-content-length".into(), fails);
            }
            fails.push((format!("{}:{}", pre, strict_class(&errs)), errs.join("; ")));
            ("malformed".into(), fails)
        }
    }
}

#[derive(Clone, Debug)]
pub struct Reflect {
    pub entry: Entry,
    pub method: String,
    pub header: String,
    pub value: String,
}
impl Reflect {
    pub fn to_json(&self) -> Value {
        json!({"kind": "reflect", "entry": self.entry.name(), "method": self.method, "header": self.header, "value": self.value})
    }
    pub fn request(&self, value: &str) -> Vec<u8> {
        let target = if self.header == "Content-Type" { "/form-url-encoded-enctype-post-method" } else { "/file.txt" };
        let mut h: Vec<(&str, &str)> = vec![];
        if self.header != "Host" {
            h.push(("Host", "localhost"));
        }
        if self.header != "Origin" {
            h.push(("Origin", "https://foo.example"));
        }
        h.push((self.header.as_str(), value));
        drive::request_bytes(&self.method, target, "HTTP/1.1", &h, b"")
    }
}

fn header_names(raw: &[u8]) -> Vec<String> {
    let (head, _) = split_lenient(raw);
    String::from_utf8_lossy(&head).split("\r\n").skip(1).filter_map(|l| l.split_once(':').map(|(n, _)| n.to_ascii_lowercase())).collect()
}

pub fn check_reflect(r: &Reflect) -> (String, Vec<(String, String)>) {
    let pre = format!("C05:reflect:{}", r.entry.name());
    let benign = drive::simple(r.entry, &r.request("a"));
    let names = header_names(&benign.raw);
    let req = r.request(&r.value);
    let out = drive::simple(r.entry, &req);
    if let Some(p) = &out.panic {
        return ("panic".into(), vec![(format!("{}:panic:{}:{}", pre, c04::call_site(&p.location), panic_class(&p.message)), p.message.clone())]);
    }
    // names the hostile request may legitimately add: a header line the *client* put on its own
    // line is not an echo; the comparison is on response header names only
    judge_wellformed(&pre, &req, &out.raw, false, Some(&names))
}

#[derive(Clone, Debug)]
pub struct RangeFraming {
    pub entry: Entry,
    pub method: String,
    pub target: String,
    pub value: String,
}
impl RangeFraming {
    pub fn to_json(&self) -> Value {
        json!({"kind": "range-framing", "entry": self.entry.name(), "method": self.method, "target": self.target, "value": self.value})
    }
}
pub fn check_range_framing(r: &RangeFraming) -> (String, Vec<(String, String)>) {
    let (pre, target) = match r.target.strip_prefix("unreadable:") {
        Some(t) => (format!("C05:unreadable-file:{}", r.entry.name()), t.to_string()),
        None => (format!("C05:range-framing:{}", r.entry.name()), r.target.clone()),
    };
    let mut headers: Vec<(&str, &str)> = vec![("Host", "localhost")];
    if !(r.value.is_empty() && r.target.starts_with("unreadable:")) {
        headers.push(("Range", r.value.as_str()));
    }
    let req = drive::request_bytes(&r.method, &target, "HTTP/1.1", &headers, b"");
    let out = drive::simple(r.entry, &req);
    if let Some(p) = &out.panic {
        return ("panic".into(), vec![(format!("{}:panic:{}:{}", pre, c04::call_site(&p.location), panic_class(&p.message)), p.message.clone())]);
    }
    judge_wellformed(&pre, &req, &out.raw, false, None)
}

#[derive(Clone, Debug)]
pub struct Transport {
    pub seed: usize,
    pub plan: String, // "first:<c>" | "uniform:<k>" | "interrupted+first:<c>" | "interrupted+uniform:<k>"
}
impl Transport {
    pub fn to_json(&self) -> Value {
        json!({"kind": "transport", "seed": self.seed, "plan": self.plan})
    }
    pub fn write_plan(&self) -> WritePlan {
        let (interrupted, rest) = match self.plan.strip_prefix("interrupted+") {
            Some(r) => (true, r),
            None => (false, self.plan.as_str()),
        };
        let (k, n) = rest.split_once(':').unwrap_or(("first", "1"));
        let n: usize = n.parse().unwrap_or(1);
        let base = if k == "uniform" { WritePlan::Uniform(n) } else { WritePlan::FirstChunk(n) };
        if interrupted {
            WritePlan::RetryableThen(ErrorKind::Interrupted, Box::new(base))
        } else {
            base
        }
    }
}

/// the form demo pages list fields in HashMap order: compare as multisets of lines
fn sorted_lines(raw: &[u8]) -> Vec<Vec<u8>> {
    let mut v: Vec<Vec<u8>> = raw.split(|c| *c == b'\n').map(|l| l.to_vec()).collect();
    v.sort();
    v
}

pub fn check_transport(t: &Transport) -> (String, Vec<(String, String)>) {
    let seeds = corpus::seeds();
    let hostile = corpus::hostile();
    let req = corpus::apply(&seeds[t.seed], &[], &hostile);
    let full = drive::simple(Entry::Process, &req);
    let mut s = MockStream::new(&req).with_write(t.write_plan());
    let out = drive::run(Entry::Process, &mut s);
    let pre = "C05:transport";
    let kind = t.plan.split(':').next().unwrap_or("");
    if let Some(p) = &out.panic {
        return ("panic".into(), vec![(format!("{}:panic:{}:{}", pre, c04::call_site(&p.location), panic_class(&p.message)), p.message.clone())]);
    }
    let want = mask_timestamps(&full.raw);
    let got = mask_timestamps(&out.raw);
    if got == want || (got.len() == want.len() && sorted_lines(&got) == sorted_lines(&want)) {
        ("delivered-in-full".into(), vec![])
    } else if want.starts_with(&got) || got.len() < want.len() {
        ("truncated".into(), vec![(format!("{}:short-write-truncates-the-response:{}", pre, kind), format!("{} of {} bytes reached the peer ({} write calls)", out.raw.len(), full.raw.len(), out.write_calls))])
    } else {
        ("different".into(), vec![(format!("{}:bytes-differ-under-short-writes:{}", pre, kind), format!("{} vs {} bytes", out.raw.len(), full.raw.len()))])
    }
}

pub fn run(ctx: &mut Ctx) {
    drive::default_config();
    let root = crate::tree::scratch_root("c05");
    corpus::tree().build(&root);
    std::env::set_current_dir(&root).unwrap();
    let thorough = ctx.tier.thorough();
    // (a) the C04 corpus
    corpus::for_each_opt(thorough, thorough, &mut |case| {
        if case.family == "header-lines" && case.request_size > 100_000 {
            return; // stack depth is C04's business
        }
        let mut key = b"corpus\0".to_vec();
        key.extend_from_slice(&case.key());
        if !ctx.begin(&key) {
            return;
        }
        let (out, _) = c04::execute(&case);
        ctx.add("cases_corpus", 1);
        if out.panic.is_some() || out.raw.is_empty() {
            ctx.outcome("corpus:no-response(C04)");
            return;
        }
        ctx.nontrivial();
        let pre = format!("C05:wellformed:{}", case.entry.name());
        let req_seen = &case.bytes[..case.bytes.len().min(case.request_size.max(0) as usize)];
        let (class, fails) = if case.read != ReadKind::Full {
            judge_wellformed(&pre, b"\0", &out.raw, false, None)
        } else {
            judge_wellformed(&pre, req_seen, &out.raw, case.app == AppKind::Unregistered, None)
        };
        ctx.sample(|| json!({"kind":"corpus","case":case.to_json()}));
        ctx.outcome(&format!("corpus:{}", class));
        for (sig, detail) in fails {
            ctx.fail(&sig, || json!({"kind":"corpus","case":case.to_json()}), detail);
        }
    });
    // (b) reflection
    let maxlen = if thorough { 3 } else { 2 };
    ctx.bound("reflection", json!({"headers": REFLECT_HEADERS, "alphabet": REFLECT_ALPHABET.iter().map(|s| show(s.as_bytes())).collect::<Vec<_>>(), "max_len": maxlen, "methods": ["GET","HEAD","OPTIONS","POST"]}));
    for entry in [Entry::Process, Entry::Legacy] {
        for method in ["GET", "HEAD", "OPTIONS", "POST"] {
            for header in REFLECT_HEADERS {
                enumerate::sequences(REFLECT_ALPHABET.len(), maxlen, &mut |idx| {
                    let value = enumerate::concat_strs(REFLECT_ALPHABET, idx);
                    let r = Reflect { entry, method: method.to_string(), header: header.to_string(), value };
                    let key = format!("reflect\0{}", r.to_json());
                    if !ctx.begin(key.as_bytes()) {
                        return;
                    }
                    ctx.add("cases_reflect", 1);
                    ctx.nontrivial();
                    ctx.sample(|| r.to_json());
                    let (class, fails) = check_reflect(&r);
                    ctx.outcome(&format!("reflect:{}", class));
                    for (sig, detail) in fails {
                        ctx.fail(&sig, || r.to_json(), detail);
                    }
                });
            }
        }
    }
    // (d) every boundary value of the Range header on files of the tree, every method: the
    //     framing of partial-content answers (Content-Length vs bytes sent, no body on HEAD/OPTIONS)
    ctx.bound("range_framing", json!({"files": ["file.txt (10 bytes)", "big.bin (20000 bytes)", "empty/ (directory)", "dir/index.html"], "methods": ["GET", "HEAD", "OPTIONS"], "values": "C03's single-range grid over {0,1,2,L-2,L-1,L,L+1,2^63,u64::MAX,u64::MAX+1,'','a','-1',' 1 ','+1','01'} and pairs of specs"}));
    for entry in [Entry::Process, Entry::Legacy] {
        for (target, l) in [("/file.txt", 10usize), ("/big.bin", 20000), ("/dir/index.html", 22), ("/empty/", 0)] {
            for method in ["GET", "HEAD", "OPTIONS"] {
                crate::props::c03::for_each_spelled_value(l, &mut |value| {
                    let r = RangeFraming { entry, method: method.to_string(), target: target.to_string(), value };
                    let key = format!("range-framing\0{}", r.to_json());
                    if !ctx.begin(key.as_bytes()) {
                        return;
                    }
                    ctx.add("cases_range_framing", 1);
                    ctx.nontrivial();
                    let (class, fails) = check_range_framing(&r);
                    ctx.outcome(&format!("range-framing:{}", class));
                    for (sig, detail) in fails {
                        ctx.fail(&sig, || r.to_json(), detail);
                    }
                });
            }
        }
    }
    // (e) answers produced on the error paths of error paths: a served directory whose index.html
    //     and 404.html exist but cannot be read (links to /proc/self/mem: is_file() holds, read fails)
    let bad = crate::tree::scratch_root("c05-unreadable");
    let _ = std::os::unix::fs::symlink("/proc/self/mem", bad.join("index.html"));
    let _ = std::os::unix::fs::symlink("/proc/self/mem", bad.join("404.html"));
    std::fs::create_dir_all(bad.join("d")).unwrap();
    let _ = std::os::unix::fs::symlink("/proc/self/mem", bad.join("d/index.html"));
    let _ = std::os::unix::fs::symlink("/proc/self/mem", bad.join("unreadable.txt"));
    std::env::set_current_dir(&bad).unwrap();
    ctx.bound("unreadable_files", json!("index.html, 404.html, d/index.html, unreadable.txt exist and cannot be read; 6 targets x GET/HEAD/OPTIONS/POST x with/without Range, both entry points"));
    for entry in [Entry::Process, Entry::Legacy] {
        for target in ["/", "/d/", "/d", "/missing", "/index.html", "/unreadable.txt"] {
            for method in ["GET", "HEAD", "OPTIONS", "POST"] {
                for value in ["", "bytes=0-0"] {
                    let r = RangeFraming { entry, method: method.to_string(), target: format!("unreadable:{}", target), value: value.to_string() };
                    let key = format!("unreadable\0{}", r.to_json());
                    if !ctx.begin(key.as_bytes()) {
                        continue;
                    }
                    ctx.nontrivial();
                    let (class, fails) = check_range_framing(&r);
                    ctx.outcome(&format!("unreadable:{}", class));
                    for (sig, detail) in fails {
                        ctx.fail(&sig, || r.to_json(), detail);
                    }
                }
            }
        }
    }
    std::env::set_current_dir(&root).unwrap();
    let _ = std::fs::remove_dir_all(&bad);
    // (c) transport
    let seeds = corpus::seeds();
    let hostile = corpus::hostile();
    ctx.bound("transport", json!("per seed response (n bytes, head h): first chunk c for every c in 1..=h+16; uniform chunks 1..=64, 4096, n-1; each also after an Interrupted first write"));
    for (si, s) in seeds.iter().enumerate() {
        let req = corpus::apply(s, &[], &hostile);
        let full = drive::simple(Entry::Process, &req);
        let n = full.raw.len();
        let h = split_lenient(&full.raw).0.len();
        let mut plans: Vec<String> = Vec::new();
        for c in 1..=(h + 16).min(n.max(1)) {
            plans.push(format!("first:{}", c));
        }
        for k in (1..=64).chain([4096, n.saturating_sub(1).max(1)]) {
            plans.push(format!("uniform:{}", k));
        }
        let with_intr: Vec<String> = plans.iter().map(|p| format!("interrupted+{}", p)).collect();
        plans.extend(with_intr);
        for plan in plans {
            let t = Transport { seed: si, plan };
            let key = format!("transport\0{}", t.to_json());
            if !ctx.begin(key.as_bytes()) {
                continue;
            }
            ctx.add("cases_transport", 1);
            ctx.nontrivial();
            ctx.sample(|| t.to_json());
            let (class, fails) = check_transport(&t);
            ctx.outcome(&format!("transport:{}", class));
            for (sig, detail) in fails {
                ctx.fail(&sig, || t.to_json(), detail);
            }
        }
    }
    std::env::set_current_dir("/").unwrap();
    let _ = std::fs::remove_dir_all(&root);
}

pub fn replay(v: &Value) -> Vec<Failure> {
    drive::default_config();
    let root = crate::tree::scratch_root("c05r");
    corpus::tree().build(&root);
    std::env::set_current_dir(&root).unwrap();
    let fails = match v["kind"].as_str() {
        Some("reflect") => {
            let r = Reflect { entry: Entry::from_name(v["entry"].as_str().unwrap_or("")), method: v["method"].as_str().unwrap_or("GET").to_string(), header: v["header"].as_str().unwrap_or("Origin").to_string(), value: v["value"].as_str().unwrap_or("").to_string() };
            check_reflect(&r).1
        }
        Some("range-framing") if v["target"].as_str().unwrap_or("").starts_with("unreadable:") => {
            let bad = crate::tree::scratch_root("c05r-unreadable");
            let _ = std::os::unix::fs::symlink("/proc/self/mem", bad.join("index.html"));
            let _ = std::os::unix::fs::symlink("/proc/self/mem", bad.join("404.html"));
            std::fs::create_dir_all(bad.join("d")).unwrap();
            let _ = std::os::unix::fs::symlink("/proc/self/mem", bad.join("d/index.html"));
            let _ = std::os::unix::fs::symlink("/proc/self/mem", bad.join("unreadable.txt"));
            std::env::set_current_dir(&bad).unwrap();
            let f = check_range_framing(&RangeFraming { entry: Entry::from_name(v["entry"].as_str().unwrap_or("")), method: v["method"].as_str().unwrap_or("GET").to_string(), target: v["target"].as_str().unwrap_or("/").to_string(), value: v["value"].as_str().unwrap_or("").to_string() }).1;
            std::env::set_current_dir("/").unwrap();
            let _ = std::fs::remove_dir_all(&bad);
            f
        }
        Some("range-framing") => check_range_framing(&RangeFraming { entry: Entry::from_name(v["entry"].as_str().unwrap_or("")), method: v["method"].as_str().unwrap_or("GET").to_string(), target: v["target"].as_str().unwrap_or("/").to_string(), value: v["value"].as_str().unwrap_or("").to_string() }).1,
        Some("transport") => check_transport(&Transport { seed: v["seed"].as_u64().unwrap_or(0) as usize, plan: v["plan"].as_str().unwrap_or("first:1").to_string() }).1,
        _ => {
            let case = corpus::case_from_json(&v["case"]);
            let (out, _) = c04::execute(&case);
            if out.panic.is_some() || out.raw.is_empty() {
                vec![]
            } else {
                let pre = format!("C05:wellformed:{}", case.entry.name());
                let req_seen = &case.bytes[..case.bytes.len().min(case.request_size.max(0) as usize)];
                if case.read != ReadKind::Full {
                    judge_wellformed(&pre, b"\0", &out.raw, false, None).1
                } else {
                    judge_wellformed(&pre, req_seen, &out.raw, case.app == AppKind::Unregistered, None).1
                }
            }
        }
    };
    std::env::set_current_dir("/").unwrap();
    let _ = std::fs::remove_dir_all(&root);
    fails.into_iter().map(|(signature, detail)| Failure { signature, case: v.clone(), detail, hash: 0 }).collect()
}
