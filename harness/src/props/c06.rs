//! C06 - serving capacity survives any history of connections.
//! Tier A: the real ThreadPool + the closure body of Server::run around the real
//! Server::process on scripted streams; every history of length <= N+1 over the connection
//! alphabet, plus every letter repeated 300 times; after each history a valid request must
//! be answered and N rendezvous connections must be served at the same time.
//! Tier B: Server::run itself on a loopback listener with real sockets.

use crate::app::App;
use crate::application::Application;
use crate::core::New;
use crate::drive::{self, Scripted};
use crate::engine::{enumerate, Ctx, Failure};
use crate::server::Server;
use crate::thread_pool::ThreadPool;
use crate::transport::{Gate, MockStream, ReadPlan, WritePlan};
use serde_json::{json, Value};
use std::io::ErrorKind;
use std::sync::mpsc;
use std::sync::Arc;
use std::time::Duration;

pub const LETTERS: &[&str] = &[
    "valid", "unparseable", "handler-err", "handler-panic", "handler-panic-typed-payload", "read-err", "read-eof", "half-sent", "write-err@0", "write-err@head", "write-err@body", "short-write", "flush-err", "stall-then-send",
    "req:no-slash-target", "req:content-length-a", "req:suffix-range-too-long", "req:multipart-non-utf8", "req:multipart-no-name", "req:many-ranges-4mib", "req:head", "req:options", "req:content-length-unallocatable", "req:percent-before-multibyte",
];

const FAST: Duration = Duration::from_millis(1500);
const SLOW: Duration = Duration::from_secs(6);

fn valid_request() -> Vec<u8> {
    drive::get("/file.txt", &[("Host", "localhost")])
}

fn request_of(letter: &str) -> Vec<u8> {
    match letter {
        "unparseable" => b"NOPE / HTTP/9.9\r\n\r\n".to_vec(),
        "req:no-slash-target" => b"GET x HTTP/1.1\r\n\r\n".to_vec(),
        "req:content-length-a" => b"GET /file.txt HTTP/1.1\r\nContent-Length: a\r\n\r\n".to_vec(),
        "req:suffix-range-too-long" => drive::get("/file.txt", &[("Range", "bytes=-11")]),
        "req:multipart-non-utf8" => drive::request_bytes("POST", "/form-multipart-enctype-post-method", "HTTP/1.1", &[("Content-Type", "multipart/form-data; boundary=XB")], b"--XB\r\nContent-Disposition: form-data; name=\"f\"\r\n\r\n\xff\xfe\r\n--XB--\r\n"),
        "req:multipart-no-name" => drive::request_bytes("POST", "/form-multipart-enctype-post-method", "HTTP/1.1", &[("Content-Type", "multipart/form-data; boundary=XB")], b"--XB\r\nContent-Disposition: attachment\r\n\r\nv\r\n--XB--\r\n"),
        "req:many-ranges-4mib" => drive::get("/four-mib.bin", &[("Range", &format!("bytes={}", vec!["0-0"; 600].join(",")))]),
        "req:content-length-unallocatable" => drive::request_bytes("POST", "/form-url-encoded-enctype-post-method", "HTTP/1.1", &[("Host", "localhost"), ("Content-Type", "application/x-www-form-urlencoded"), ("Content-Length", "9223372036854775807")], b"a=b"),
        "req:percent-before-multibyte" => drive::get("/form-get-method?name=50%a\u{20ac}&x=%\u{20ac}", &[("Host", "localhost")]),
        "req:head" => drive::request_bytes("HEAD", "/file.txt", "HTTP/1.1", &[("Host", "localhost")], b""),
        "req:options" => drive::request_bytes("OPTIONS", "/file.txt", "HTTP/1.1", &[("Origin", "https://a"), ("Access-Control-Request-Method", "GET")], b""),
        _ => valid_request(),
    }
}

#[derive(Clone, Copy)]
enum AppSel {
    Shipped,
    Err,
    Panic,
    PanicAny,
}

/// submit one connection to the pool exactly as Server::run does; the closure reports what
/// the transport accepted when (if) it completes
fn submit(pool: &ThreadPool, mut stream: MockStream, app: AppSel, tx: mpsc::Sender<(usize, Vec<u8>, bool)>, id: usize) {
    let connection = drive::conn(10000);
    pool.execute(move || {
        // a guard that reports even when the job unwinds
        struct Report {
            tx: mpsc::Sender<(usize, Vec<u8>, bool)>,
            id: usize,
            bytes: Arc<std::sync::Mutex<Vec<u8>>>,
        }
        impl Drop for Report {
            fn drop(&mut self) {
                let b = self.bytes.lock().map(|g| g.clone()).unwrap_or_default();
                let _ = self.tx.send((self.id, b, std::thread::panicking()));
            }
        }
        let shared = Arc::new(std::sync::Mutex::new(Vec::new()));
        let _report = Report { tx, id, bytes: shared.clone() };
        struct Tee<'a> {
            inner: &'a mut MockStream,
            shared: Arc<std::sync::Mutex<Vec<u8>>>,
        }
        impl<'a> std::io::Read for Tee<'a> {
            fn read(&mut self, buf: &mut [u8]) -> std::io::Result<usize> {
                self.inner.read(buf)
            }
        }
        impl<'a> std::io::Write for Tee<'a> {
            fn write(&mut self, buf: &[u8]) -> std::io::Result<usize> {
                let n = self.inner.write(buf)?;
                if let Ok(mut g) = self.shared.lock() {
                    g.extend_from_slice(&buf[..n]);
                }
                Ok(n)
            }
            fn flush(&mut self) -> std::io::Result<()> {
                self.inner.flush()
            }
        }
        let tee = Tee { inner: &mut stream, shared };
        // --- the closure body of Server::run ---
        let boxed_process = match app {
            AppSel::Shipped => Server::process(tee, connection, App::new()),
            AppSel::Err => Server::process(tee, connection, Scripted::Err),
            AppSel::Panic => Server::process(tee, connection, Scripted::Panic),
            AppSel::PanicAny => Server::process(tee, connection, Scripted::PanicAny),
        };
        if boxed_process.is_err() {
            let message = boxed_process.err().unwrap();
            eprintln!("{}", message);
        }
    });
}

fn stream_of(letter: &str, gates: &mut Vec<Arc<Gate>>) -> (MockStream, AppSel) {
    let req = request_of(letter);
    let n = req.len();
    let s = MockStream::new(&req);
    match letter {
        "handler-err" => (s, AppSel::Err),
        "handler-panic" => (s, AppSel::Panic),
        "handler-panic-typed-payload" => (s, AppSel::PanicAny),
        "read-err" => (s.with_read(ReadPlan::Err(ErrorKind::ConnectionReset)), AppSel::Shipped),
        "read-eof" => (s.with_read(ReadPlan::Eof), AppSel::Shipped),
        "half-sent" => (s.with_read(ReadPlan::Prefix(n / 2)), AppSel::Shipped),
        "write-err@0" => (s.with_write(WritePlan::ErrAt(0, ErrorKind::BrokenPipe)), AppSel::Shipped),
        "write-err@head" => (s.with_write(WritePlan::ErrAt(40, ErrorKind::BrokenPipe)), AppSel::Shipped),
        "write-err@body" => (s.with_write(WritePlan::ErrAt(1060, ErrorKind::ConnectionReset)), AppSel::Shipped),
        "short-write" => (s.with_write(WritePlan::Uniform(7)), AppSel::Shipped),
        "flush-err" => (s.with_flush_err(ErrorKind::BrokenPipe), AppSel::Shipped),
        "stall-then-send" => {
            let g = Gate::new();
            gates.push(g.clone());
            (s.with_read(ReadPlan::Gated(g)), AppSel::Shipped)
        }
        _ => (s, AppSel::Shipped),
    }
}

fn status_of(raw: &[u8]) -> String {
    if raw.len() >= 12 && raw.starts_with(b"HTTP/") {
        String::from_utf8_lossy(&raw[9..12]).to_string()
    } else if raw.is_empty() {
        "nothing".into()
    } else {
        "garbage".into()
    }
}

#[derive(Debug, Clone, PartialEq)]
pub struct Observation {
    pub statuses: Vec<String>,
    pub panicked: Vec<bool>,
    pub probe_valid: String,
    pub simultaneous: usize,
    /// connections of this history whose worker was still calling read after 200 000 calls
    pub spinning: usize,
}

/// Run one history on a fresh pool of n workers.
pub fn run_history(n: usize, history: &[usize]) -> Observation {
    run_history_h(n, history, FAST)
}

#[allow(non_snake_case)]
pub fn run_history_h(n: usize, history: &[usize], HORIZON: Duration) -> Observation {
    let runaways_before = crate::transport::runaways();
    let pool = ThreadPool::new(n);
    let (tx, rx) = mpsc::channel::<(usize, Vec<u8>, bool)>();
    let mut panicked = vec![false; history.len()];
    let mut gates: Vec<Arc<Gate>> = Vec::new();
    let mut statuses = vec![String::new(); history.len()];
    // connections arrive one after another; a stalled one is released once the rest of the
    // history has been submitted
    let mut pending = 0usize;
    let mut dead = false;
    let mut released = 0usize;
    for (i, l) in history.iter().enumerate() {
        if dead {
            // nobody takes jobs any more: the rest of the history cannot change that
            break;
        }
        // a stalled connection legitimately occupies its worker; when every worker is held by
        // one, the stalled clients finally send (otherwise nothing could ever be served)
        if gates.len() - released >= n {
            for g in &gates[released..] {
                g.open();
            }
            released = gates.len();
        }
        let (stream, app) = stream_of(LETTERS[*l], &mut gates);
        submit(&pool, stream, app, tx.clone(), i);
        pending += 1;
        if LETTERS[*l] != "stall-then-send" {
            // wait for this connection to finish before the next one arrives (sequential history)
            let deadline = std::time::Instant::now() + HORIZON;
            loop {
                match rx.recv_timeout(Duration::from_millis(50)) {
                    Ok((id, bytes, p)) => {
                        statuses[id] = status_of(&bytes);
                        panicked[id] = p;
                        pending -= 1;
                        if id == i {
                            break;
                        }
                    }
                    Err(_) => {
                        if std::time::Instant::now() > deadline {
                            statuses[i] = "never-handled".into();
                            dead = true;
                            break;
                        }
                    }
                }
            }
        }
    }
    for g in &gates {
        g.open();
    }
    let deadline = std::time::Instant::now() + HORIZON;
    while pending > 0 && std::time::Instant::now() < deadline {
        if let Ok((id, bytes, p)) = rx.recv_timeout(Duration::from_millis(50)) {
            if id < statuses.len() && statuses[id].is_empty() {
                statuses[id] = status_of(&bytes);
                panicked[id] = p;
            }
            pending = pending.saturating_sub(1);
        }
    }
    for s in statuses.iter_mut() {
        if s.is_empty() {
            *s = "never-handled".into();
        }
    }
    if dead {
        for g in &gates {
            g.open();
        }
        drop(pool);
        return Observation { statuses, panicked, probe_valid: "no-answer".into(), simultaneous: 0, spinning: crate::transport::runaways() - runaways_before };
    }
    // probe 1: a valid request is answered correctly
    let (ptx, prx) = mpsc::channel();
    submit(&pool, MockStream::new(&valid_request()), AppSel::Shipped, ptx, 0);
    let probe_valid = match prx.recv_timeout(HORIZON) {
        Ok((_, bytes, _)) => {
            let st = status_of(&bytes);
            if st == "200" && bytes.ends_with(b"0123456789") {
                "answered".to_string()
            } else {
                format!("wrong:{}", st)
            }
        }
        Err(_) => "no-answer".to_string(),
    };
    // probe 2: n simultaneous connections, each blocked in read until all n are inside a worker
    let gate = Gate::new();
    let (rtx, rrx) = mpsc::channel();
    for k in 0..n {
        let s = MockStream::new(&valid_request()).with_read(ReadPlan::Gated(gate.clone()));
        submit(&pool, s, AppSel::Shipped, rtx.clone(), k);
    }
    let all_inside = gate.wait_waiting(n, HORIZON);
    let inside = gate.waiting();
    gate.open();
    let mut served = 0;
    // those that are inside a worker finish at once; the others are queued behind them and are
    // served too unless nobody is left to take them
    let deadline = std::time::Instant::now() + if all_inside { HORIZON } else { Duration::from_millis(400) };
    while served < n && std::time::Instant::now() < deadline {
        if let Ok((_, bytes, _)) = rrx.recv_timeout(Duration::from_millis(100)) {
            if status_of(&bytes) == "200" {
                served += 1;
            }
        }
    }
    drop(pool);
    Observation { statuses, panicked, probe_valid, simultaneous: if all_inside { n.min(served.max(inside)) } else { inside }, spinning: crate::transport::runaways() - runaways_before }
}

pub fn history_json(n: usize, h: &[usize]) -> Value {
    json!({"tier": "A", "workers": n, "history": h.iter().map(|l| LETTERS[*l]).collect::<Vec<_>>()})
}

fn judge(n: usize, h: &[usize], o: &Observation) -> Vec<(String, String)> {
    let mut fails = Vec::new();
    // whom to blame: the letters whose job was seen unwinding (a worker without an unwind guard
    // dies with it); failing that, the non-plain letters of the history
    let blame = |h: &[usize]| -> String {
        let mut guilty: Vec<&str> = h.iter().enumerate().filter(|(i, _)| *o.panicked.get(*i).unwrap_or(&false)).map(|(_, l)| LETTERS[*l]).collect();
        guilty.sort();
        guilty.dedup();
        if !guilty.is_empty() {
            return format!("a-job-that-panicked:{}", guilty.join("+"));
        }
        if o.spinning > 0 {
            let mut never: Vec<&str> = h.iter().enumerate().filter(|(i, _)| o.statuses.get(*i).map(|s| s == "never-handled").unwrap_or(false)).map(|(_, l)| LETTERS[*l]).collect();
            never.sort();
            never.dedup();
            return format!("a-connection-whose-worker-never-stops-reading:{}", never.join("+"));
        }
        let mut names: Vec<&str> = h.iter().map(|l| LETTERS[*l]).filter(|l| *l != "valid").collect();
        names.sort();
        names.dedup();
        if names.is_empty() { "valid".to_string() } else { names.join("+") }
    };
    if o.simultaneous < n {
        fails.push((format!("C06:A:capacity-lost-after:{}", blame(h)), format!("workers={}: only {} of {} simultaneous connections were served; valid-request probe: {}; statuses={:?}", n, o.simultaneous, n, o.probe_valid, o.statuses)));
    } else if o.probe_valid != "answered" {
        fails.push((format!("C06:A:valid-request-not-answered-after:{}", blame(h)), format!("workers={} probe={} statuses={:?}", n, o.probe_valid, o.statuses)));
    }
    for (i, s) in o.statuses.iter().enumerate() {
        if s == "never-handled" && o.simultaneous >= n {
            fails.push((format!("C06:A:connection-never-handled:{}", LETTERS[h[i]]), format!("connection {} of {:?}", i, h.iter().map(|l| LETTERS[*l]).collect::<Vec<_>>())));
        }
    }
    fails
}

thread_local! {
    static CONFIRMED: std::cell::RefCell<std::collections::HashSet<String>> = Default::default();
    /// letters that on their own (repeated N times) already take capacity away, with the failure
    /// they produce: a longer history containing one is explained by it and is not run again
    static KILLERS: std::cell::RefCell<std::collections::HashMap<(usize, usize), (String, String)>> = Default::default();
}

pub fn check_history(n: usize, h: &[usize]) -> (Observation, Vec<(String, String)>) {
    if h.len() > 1 {
        let known = KILLERS.with(|k| h.iter().find_map(|l| k.borrow().get(&(n, *l)).cloned()));
        if let Some((sig, detail)) = known {
            let o = Observation { statuses: vec![], panicked: vec![], probe_valid: "not-run".into(), simultaneous: 0, spinning: 0 };
            return (o, vec![(sig, format!("(not run: contains a letter that already fails on its own) {}", detail))]);
        }
    }
    let mut o = run_history(n, h);
    let mut fails = judge(n, h, &o);
    // a failure class that has already been confirmed and minimised in this worker is not re-confirmed
    if !fails.is_empty() && fails.iter().all(|(s, _)| CONFIRMED.with(|c| c.borrow().contains(s))) {
        return (o, fails);
    }
    if !fails.is_empty() && !o.panicked.iter().any(|p| *p) {
        // nothing was seen unwinding: confirm with the generous horizon before believing it
        // (a loaded machine may be slow, never wrong)
        o = run_history_h(n, h, SLOW);
        fails = judge(n, h, &o);
    }
    // minimise: blame the shortest sub-history (single letters first) that already fails
    if !fails.is_empty() && h.len() > 1 && !o.panicked.iter().any(|p| *p) {
        let mut letters: Vec<usize> = h.to_vec();
        letters.sort();
        letters.dedup();
        for l in letters {
            let rep: Vec<usize> = vec![l; n];
            let o2 = run_history_h(n, &rep, SLOW);
            let f2 = judge(n, &rep, &o2);
            if !f2.is_empty() {
                KILLERS.with(|k| k.borrow_mut().insert((n, l), f2[0].clone()));
                fails = f2;
                break;
            }
        }
    }
    if !fails.is_empty() && !h.is_empty() && h.iter().all(|l| *l == h[0]) && h.len() <= n {
        KILLERS.with(|k| k.borrow_mut().insert((n, h[0]), fails[0].clone()));
    }
    for (s, _) in &fails {
        CONFIRMED.with(|c| c.borrow_mut().insert(s.clone()));
    }
    // also remember the unminimised class so that longer histories of the same letters are cheap
    for (s, _) in judge(n, h, &o) {
        CONFIRMED.with(|c| c.borrow_mut().insert(s));
    }
    (o, fails)
}

fn build_tree() -> std::path::PathBuf {
    let root = crate::tree::scratch_root("c06");
    crate::corpus::tree().build(&root);
    root
}

pub fn run(ctx: &mut Ctx) {
    drive::default_config();
    let root = build_tree();
    std::env::set_current_dir(&root).unwrap();
    let thorough = ctx.tier.thorough();
    // tier B first: it forks, and a fork must not happen while worker threads of earlier pools
    // are still around (a lock they hold would stay locked for ever in the child)
    crate::props::c06b::run(ctx);
    ctx.bound("tier_A_alphabet", json!(LETTERS));
    ctx.bound("tier_A_histories", json!(if thorough { "every history of length <= N+1 for N = 1, 2, 3 workers; every letter repeated 300 times for N = 1..3" } else { "every history of length <= N+1 for N = 1, 2; length <= 2 and every 3-letter history of fault letters for N = 3; every letter repeated 300 times (N = 2)" }));
    let mut states: std::collections::BTreeSet<(usize, usize)> = Default::default();
    let mut transitions: u64 = 0;
    let mut go = |ctx: &mut Ctx, n: usize, h: Vec<usize>| {
        let j = history_json(n, &h);
        if ctx.verdict_established(4) {
            return;
        }
        if !ctx.begin_case(j.to_string().as_bytes(), || j.clone()) {
            return;
        }
        if !h.is_empty() {
            ctx.nontrivial();
            ctx.sample(|| j.clone());
        }
        let (o, fails) = check_history(n, &h);
        // determinism: short histories are run twice and must give the same observation
        if h.len() <= 2 && o.probe_valid != "not-run" {
            let o2 = run_history(n, &h);
            if o2 != o {
                ctx.machinery_error(format!("history {} gave two different observations: {:?} vs {:?}", j, o, o2));
            }
        }
        if o.probe_valid == "not-run" {
            ctx.outcome(&format!("N={}:explained-by-a-letter-that-fails-on-its-own", n));
            for (sig, detail) in fails {
                ctx.fail(&sig, || j.clone(), detail);
            }
            return;
        }
        states.insert((n, o.simultaneous));
        ctx.add(&format!("state:workers={}:capacity={}", n, o.simultaneous), 1);
        transitions += h.len() as u64;
        ctx.add("transitions", h.len() as u64);
        ctx.add("traces_validated_against_impl", 1);
        ctx.outcome(&format!("N={}:capacity={}:{}", n, o.simultaneous, o.probe_valid));
        for (sig, detail) in fails {
            ctx.fail(&sig, || j.clone(), detail);
        }
    };
    let fault_letters: Vec<usize> = (0..LETTERS.len()).filter(|l| !LETTERS[*l].starts_with("req:") && LETTERS[*l] != "valid").collect();
    for n in [1usize, 2, 3] {
        // baseline: a fresh pool with no history at all must pass both probes; if it does not,
        // every history would fail for the same reason - report that once and go on
        {
            let o = run_history_h(n, &[], SLOW);
            if o.simultaneous < n || o.probe_valid != "answered" {
                let j = history_json(n, &[]);
                if ctx.begin(format!("baseline\0{}", j).as_bytes()) {
                    ctx.nontrivial();
                    ctx.outcome(&format!("N={}:baseline-fails", n));
                    ctx.fail("C06:A:a-fresh-pool-cannot-serve-as-many-simultaneous-connections-as-it-has-workers", || j.clone(), format!("workers={}: {} simultaneous, valid-request probe: {}", n, o.simultaneous, o.probe_valid));
                }
                continue;
            }
        }
        let full_len = if n <= 2 || thorough { n + 1 } else { 2 };
        for len in 0..=full_len {
            enumerate::sequences_exact(LETTERS.len(), len, &mut |idx| go(ctx, n, idx.to_vec()));
        }
        if n == 3 && !thorough {
            enumerate::sequences_exact(fault_letters.len(), 3, &mut |idx| go(ctx, n, idx.iter().map(|i| fault_letters[*i]).collect()));
        }
        if n == 2 || thorough {
            for l in 0..LETTERS.len() {
                if LETTERS[l] == "stall-then-send" || LETTERS[l] == "req:many-ranges-4mib" {
                    continue; // a stalled connection legitimately occupies its worker: 300 of them need 300 workers
                }
                go(ctx, n, vec![l; 300]);
            }
        }
    }
    let _ = (&states, transitions);
    std::env::set_current_dir("/").unwrap();
    let _ = std::fs::remove_dir_all(&root);
}

pub fn replay(v: &Value) -> Vec<Failure> {
    drive::default_config();
    let root = build_tree();
    std::env::set_current_dir(&root).unwrap();
    let out = if v["tier"].as_str() == Some("B") {
        crate::props::c06b::replay(v)
    } else {
        let n = v["workers"].as_u64().unwrap_or(1) as usize;
        let h: Vec<usize> = v["history"].as_array().map(|a| a.iter().filter_map(|l| LETTERS.iter().position(|x| Some(*x) == l.as_str())).collect()).unwrap_or_default();
        let (_, fails) = check_history(n, &h);
        fails.into_iter().map(|(signature, detail)| Failure { signature, case: v.clone(), detail, hash: 0 }).collect()
    };
    std::env::set_current_dir("/").unwrap();
    let _ = std::fs::remove_dir_all(&root);
    out
}
