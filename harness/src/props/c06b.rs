//! C06 tier B - the accept loop: Server::run itself on a loopback listener, real sockets.
//! Every history of length <= 3 (4 in thorough) over the client behaviours below, each in a
//! forked child (the accept loop cannot be stopped), each repeated (kernel TCP timing is not
//! owned by the harness: this tier can miss, it cannot raise a false alarm).

use crate::app::App;
use crate::core::New;
use crate::engine::{enumerate, fork_run, Ctx, Failure};
use crate::server::Server;
use crate::thread_pool::ThreadPool;
use serde_json::{json, Value};
use std::io::{Read, Write};
use std::net::{TcpListener, TcpStream};
use std::os::unix::io::AsRawFd;
use std::sync::atomic::{AtomicBool, Ordering};
use std::sync::Arc;
use std::time::Duration;

pub const LETTERS: &[&str] = &["valid", "reset-before-send", "send-then-reset", "early-close", "half-sent-then-close", "connect-and-linger"];
const WORKERS: usize = 2;

fn set_linger0(s: &TcpStream) {
    let l = libc::linger { l_onoff: 1, l_linger: 0 };
    unsafe {
        libc::setsockopt(s.as_raw_fd(), libc::SOL_SOCKET, libc::SO_LINGER, &l as *const _ as *const libc::c_void, std::mem::size_of::<libc::linger>() as libc::socklen_t);
    }
}

fn get(addr: &std::net::SocketAddr) -> Result<Vec<u8>, String> {
    get_with(addr, 3)
}

fn get_with(addr: &std::net::SocketAddr, secs: u64) -> Result<Vec<u8>, String> {
    let mut s = TcpStream::connect_timeout(addr, Duration::from_secs(secs.max(2))).map_err(|e| format!("connect: {}", e))?;
    s.set_read_timeout(Some(Duration::from_secs(secs))).ok();
    s.write_all(b"GET /file.txt HTTP/1.1\r\nHost: localhost\r\n\r\n").map_err(|e| format!("write: {}", e))?;
    let mut out = Vec::new();
    let mut buf = [0u8; 4096];
    loop {
        match s.read(&mut buf) {
            Ok(0) => break,
            Ok(n) => out.extend_from_slice(&buf[..n]),
            Err(e) => {
                if out.is_empty() {
                    return Err(format!("read: {}", e));
                }
                break;
            }
        }
    }
    Ok(out)
}

fn act(letter: &str, addr: &std::net::SocketAddr, keep: &mut Vec<TcpStream>) {
    match letter {
        "valid" => {
            let _ = get(addr);
        }
        "reset-before-send" => {
            if let Ok(s) = TcpStream::connect_timeout(addr, Duration::from_secs(2)) {
                set_linger0(&s);
                drop(s);
            }
        }
        "send-then-reset" => {
            if let Ok(mut s) = TcpStream::connect_timeout(addr, Duration::from_secs(2)) {
                let _ = s.write_all(b"GET /file.txt HTTP/1.1\r\nHost: localhost\r\n\r\n");
                set_linger0(&s);
                drop(s);
            }
        }
        "early-close" => {
            if let Ok(s) = TcpStream::connect_timeout(addr, Duration::from_secs(2)) {
                drop(s);
            }
        }
        "half-sent-then-close" => {
            if let Ok(mut s) = TcpStream::connect_timeout(addr, Duration::from_secs(2)) {
                let _ = s.write_all(b"GET /file.tx");
                drop(s);
            }
        }
        "connect-and-linger" => {
            // an idle connection held open while the probe runs: occupies one worker, legitimately
            if let Ok(s) = TcpStream::connect_timeout(addr, Duration::from_secs(2)) {
                keep.push(s);
            }
        }
        _ => {}
    }
}

/// runs in a forked child: returns a JSON observation
pub fn child(history: &[usize]) -> Vec<u8> {
    child_with(history, false)
}

/// `patient`: longer pauses and time limits (used to confirm a failure before it is reported)
pub fn child_with(history: &[usize], patient: bool) -> Vec<u8> {
    let listener = match TcpListener::bind("127.0.0.1:0") {
        Ok(l) => l,
        Err(e) => return serde_json::to_vec(&json!({"error": format!("bind: {}", e)})).unwrap(),
    };
    let addr = listener.local_addr().unwrap();
    let returned = Arc::new(AtomicBool::new(false));
    let r2 = returned.clone();
    std::thread::Builder::new()
        .name("accept".into())
        .spawn(move || {
            let pool = ThreadPool::new(WORKERS);
            Server::run(listener, pool, App::new());
            r2.store(true, Ordering::SeqCst);
        })
        .unwrap();
    let mut keep = Vec::new();
    for l in history {
        act(LETTERS[*l], &addr, &mut keep);
        std::thread::sleep(Duration::from_millis(if patient { 30 } else { 3 }));
    }
    std::thread::sleep(Duration::from_millis(if patient { 300 } else { 15 }));
    // an idle connection legitimately holds a worker; with all workers held nobody can answer
    let idle = keep.len();
    let probe = if idle >= WORKERS { Ok(b"skipped".to_vec()) } else { get_with(&addr, if patient { 20 } else { 3 }) };
    let run_returned = returned.load(Ordering::SeqCst);
    let (ok, detail) = match &probe {
        Ok(b) if b == b"skipped" => (true, "skipped: all workers hold idle connections".to_string()),
        Ok(b) => (b.starts_with(b"HTTP/1.1 200") && b.ends_with(b"0123456789"), format!("{} bytes, starts {:?}", b.len(), String::from_utf8_lossy(&b[..b.len().min(20)]))),
        Err(e) => (false, e.clone()),
    };
    serde_json::to_vec(&json!({"probe_ok": ok, "probe": detail, "run_returned": run_returned})).unwrap()
}

pub fn history_json(h: &[usize]) -> Value {
    json!({"tier": "B", "workers": WORKERS, "history": h.iter().map(|l| LETTERS[*l]).collect::<Vec<_>>()})
}

thread_local! {
    /// client behaviours that already fail on their own: longer histories containing one are explained by it
    static KILLERS: std::cell::RefCell<std::collections::HashMap<usize, (String, String)>> = Default::default();
}

pub fn check(h: &[usize], repeats: usize) -> (String, Vec<(String, String)>) {
    if h.len() > 1 {
        if let Some(f) = KILLERS.with(|k| h.iter().find_map(|l| k.borrow().get(l).cloned())) {
            return ("lost".into(), vec![(f.0, format!("(not run: contains a behaviour that already fails on its own) {}", f.1))]);
        }
    }
    let mut fails: Vec<(String, String)> = Vec::new();
    let mut names: Vec<&str> = h.iter().map(|l| LETTERS[*l]).filter(|l| *l != "valid").collect();
    names.sort();
    names.dedup();
    let blame = if names.is_empty() { "valid".to_string() } else { names.join("+") };
    for _ in 0..repeats {
        let out = match fork_run(|| child(h)) {
            Ok(o) => o,
            Err(e) => {
                fails.push((format!("C06:B:server-process-died-after:{}", blame), e));
                break;
            }
        };
        let v: Value = serde_json::from_slice(&out).unwrap_or(json!({"error": "unreadable"}));
        if v.get("error").is_some() {
            // environment problem (cannot bind): not a verdict
            return ("env-error".into(), vec![]);
        }
        let failed = v["run_returned"].as_bool() == Some(true) || v["probe_ok"].as_bool() != Some(true);
        if failed {
            // confirm with generous pauses and time limits before believing it: a loaded machine
            // may be slow, and this tier must never raise a false alarm
            let again = fork_run(|| child_with(h, true)).ok().and_then(|o| serde_json::from_slice::<Value>(&o).ok());
            let still = again.map(|w| w["run_returned"].as_bool() == Some(true) || w["probe_ok"].as_bool() != Some(true)).unwrap_or(false);
            if !still {
                continue;
            }
        }
        if v["run_returned"].as_bool() == Some(true) {
            fails.push((format!("C06:B:accept-loop-returned-after:{}", blame), format!("Server::run returned; probe: {}", v["probe"])));
            break;
        }
        if v["probe_ok"].as_bool() != Some(true) {
            fails.push((format!("C06:B:valid-request-not-answered-after:{}", blame), format!("probe: {}", v["probe"])));
            break;
        }
    }
    // blame the single behaviour that already fails on its own, if there is one
    if !fails.is_empty() && names.len() > 1 && repeats > 0 {
        for l in 0..LETTERS.len() {
            if !h.contains(&l) || LETTERS[l] == "valid" {
                continue;
            }
            let (_, single) = check(&[l], repeats.max(10));
            if !single.is_empty() {
                KILLERS.with(|k| k.borrow_mut().insert(l, single[0].clone()));
                fails = single;
                break;
            }
        }
    }
    if !fails.is_empty() && h.len() == 1 {
        KILLERS.with(|k| k.borrow_mut().insert(h[0], fails[0].clone()));
    }
    (if fails.is_empty() { "serving".into() } else { "lost".into() }, fails)
}

pub fn run(ctx: &mut Ctx) {
    let thorough = ctx.tier.thorough();
    let maxlen = if thorough { 4 } else { 3 };
    let repeats = if thorough { 20 } else { 6 };
    ctx.bound("tier_B", json!({"letters": LETTERS, "max_history_length": maxlen, "repeats_per_history": repeats, "workers": WORKERS}));
    for len in 0..=maxlen {
        enumerate::sequences_exact(LETTERS.len(), len, &mut |idx| {
            let j = history_json(idx);
            if ctx.verdict_established(3) {
                return;
            }
            if !ctx.begin(j.to_string().as_bytes()) {
                return;
            }
            if !idx.is_empty() {
                ctx.nontrivial();
                ctx.sample(|| j.clone());
            }
            let (class, fails) = check(idx, repeats);
            ctx.add("transitions", idx.len() as u64 * repeats as u64);
            ctx.add("traces_validated_against_impl", repeats as u64);
            ctx.outcome(&format!("B:{}", class));
            for (sig, detail) in fails {
                ctx.fail(&sig, || j.clone(), detail);
            }
        });
    }
}

pub fn replay(v: &Value) -> Vec<Failure> {
    let h: Vec<usize> = v["history"].as_array().map(|a| a.iter().filter_map(|l| LETTERS.iter().position(|x| Some(*x) == l.as_str())).collect()).unwrap_or_default();
    check(&h, 40).1.into_iter().map(|(signature, detail)| Failure { signature, case: v.clone(), detail, hash: 0 }).collect()
}
