//! C08 - concurrent requests do not influence one another.
//! (1) history independence: every ordered pair and triple of the request alphabet is served
//!     back to back by one thread of a freshly forked process; each response must equal the
//!     response the request gets alone in a fresh process.
//! (2) interleavings: K threads each run the real Server::process on their own scripted
//!     stream under the baton scheduler (one thread runs at a time, control changes hands
//!     only at the stream's read/write/flush and at the verif_hooks::point lines of the
//!     request path); every schedule with at most B preemptions is executed, each in a
//!     freshly forked process (so every schedule starts from the cold initial state), and
//!     every stream must hold byte for byte its solo response.

use crate::drive::{self, Entry};
use crate::engine::{fork_run, hex, unhex, Ctx, Failure};
use crate::oracle::http::{mask_timestamps, split_lenient};
use crate::transport::MockStream;
use crate::verif_hooks::{preemptions, run_schedule, Step};
use serde_json::{json, Value};
use std::time::Duration;

pub fn alphabet() -> Vec<(&'static str, Vec<u8>)> {
    let h = [("Host", "localhost")];
    vec![
        ("get-file", drive::get("/file.txt", &h)),
        ("get-other-file", drive::get("/a.txt", &h)),
        ("get-big", drive::get("/big.bin", &h)),
        ("get-range", drive::get("/file.txt", &[("Host", "localhost"), ("Range", "bytes=2-5")])),
        ("get-multi-range", drive::get("/big.bin", &[("Host", "localhost"), ("Range", "bytes=0-9, 100-199, -5")])),
        ("head-file", drive::request_bytes("HEAD", "/file.txt", "HTTP/1.1", &h, b"")),
        ("options-preflight", drive::request_bytes("OPTIONS", "/file.txt", "HTTP/1.1", &[("Host", "localhost"), ("Origin", "https://foo.example"), ("Access-Control-Request-Method", "POST")], b"")),
        ("get-with-origin", drive::get("/file.txt", &[("Host", "localhost"), ("Origin", "https://bar.example")])),
        ("form-post-short", drive::request_bytes("POST", "/form-url-encoded-enctype-post-method", "HTTP/1.1", &[("Host", "localhost"), ("Content-Type", "application/x-www-form-urlencoded")], b"x=1")),
        ("form-post-long", drive::request_bytes("POST", "/form-url-encoded-enctype-post-method", "HTTP/1.1", &[("Host", "localhost"), ("Content-Type", "application/x-www-form-urlencoded"), ("Cookie", "session=alice-private-token-0123456789")], b"password=hunter2-alice-private&count=42&note=lorem+ipsum+dolor+sit+amet")),
        ("form-multipart", drive::request_bytes("POST", "/form-multipart-enctype-post-method", "HTTP/1.1", &[("Host", "localhost"), ("Content-Type", "multipart/form-data; boundary=XB")], crate::corpus::MULTIPART_BODY)),
        ("form-get", drive::get("/form-get-method?who=bob&what=query", &h)),
        ("not-found", drive::get("/missing", &h)),
        ("bad-request", b"NOPE / HTTP/9.9\r\n\r\n".to_vec()),
        ("range-416", drive::get("/file.txt", &[("Host", "localhost"), ("Range", "bytes=50-60")])),
        ("dir-index", drive::get("/dir/", &h)),
        ("link-small", drive::get("/link-small.txt", &h)),
        ("link-big", drive::get("/link-big.bin", &h)),
        ("builtin-index", drive::get("/", &h)),
        ("builtin-style", drive::get("/style.css", &h)),
    ]
}

/// requests that only take part in the histories (served back to back by one thread): pairs that
/// differ in exactly one dimension a cache key could forget (requested method / headers of a
/// preflight, spelling of an origin, letter case of an extension, query string, path behind the
/// same origin)
pub fn history_extra() -> Vec<(&'static str, Vec<u8>)> {
    let h = [("Host", "localhost")];
    vec![
        ("options-preflight-put", drive::request_bytes("OPTIONS", "/file.txt", "HTTP/1.1", &[("Host", "localhost"), ("Origin", "https://foo.example"), ("Access-Control-Request-Method", "PUT"), ("Access-Control-Request-Headers", "x-custom-a")], b"")),
        ("options-preflight-delete-other-path", drive::request_bytes("OPTIONS", "/a.txt", "HTTP/1.1", &[("Host", "localhost"), ("Origin", "https://foo.example"), ("Access-Control-Request-Method", "DELETE"), ("Access-Control-Request-Headers", "authorization, x-b")], b"")),
        ("options-preflight-other-origin", drive::request_bytes("OPTIONS", "/file.txt", "HTTP/1.1", &[("Host", "localhost"), ("Origin", "https://bar.example"), ("Access-Control-Request-Method", "POST")], b"")),
        ("options-no-origin", drive::request_bytes("OPTIONS", "/file.txt", "HTTP/1.1", &h, b"")),
        ("get-with-origin-foo", drive::get("/file.txt", &[("Host", "localhost"), ("Origin", "https://foo.example")])),
        ("get-with-origin-case-variant", drive::get("/file.txt", &[("Host", "localhost"), ("Origin", "HTTPS://FOO.EXAMPLE")])),
        ("get-with-origin-unlisted", drive::get("/file.txt", &[("Host", "localhost"), ("Origin", "https://evil.example")])),
        ("get-upper-ext", drive::get("/UPPER.TXT", &h)),
        ("get-mixed-ext", drive::get("/Photo.Jpg", &h)),
        ("get-lower-jpg", drive::get("/photo.jpg", &h)),
        ("get-file-query", drive::get("/file.txt?x=1", &h)),
        ("head-big", drive::request_bytes("HEAD", "/big.bin", "HTTP/1.1", &h, b"")),
        ("head-missing", drive::request_bytes("HEAD", "/missing", "HTTP/1.1", &h, b"")),
        ("get-suffix-range-other", drive::get("/a.txt", &[("Host", "localhost"), ("Range", "bytes=-4")])),
        ("form-get-other", drive::get("/form-get-method?who=alice", &h)),
        ("get-html-fallback", drive::get("/page", &h)),
    ]
}

pub fn every_request() -> Vec<(&'static str, Vec<u8>)> {
    let mut v = alphabet();
    v.extend(history_extra());
    v
}

/// server configurations the histories run under: "default" (allow-all cross-origin mode) and
/// "cors-configured" (switch off, two origins listed, credentials on)
pub fn apply_config(name: &str) {
    drive::default_config();
    if name == "cors-configured" {
        std::env::set_var("RWS_CONFIG_CORS_ALLOW_ALL", "false");
        std::env::set_var("RWS_CONFIG_CORS_ALLOW_ORIGINS", "https://foo.example,https://bar.example");
        std::env::set_var("RWS_CONFIG_CORS_ALLOW_CREDENTIALS", "true");
        std::env::set_var("RWS_CONFIG_CORS_ALLOW_METHODS", "GET,POST,PUT");
        std::env::set_var("RWS_CONFIG_CORS_ALLOW_HEADERS", "content-type,x-custom-a");
        std::env::set_var("RWS_CONFIG_CORS_EXPOSE_HEADERS", "content-type");
        std::env::set_var("RWS_CONFIG_CORS_MAX_AGE", "600");
    }
}

pub fn build_tree(tag: &str) -> std::path::PathBuf {
    build_tree_with(tag, false)
}

/// `custom_404`: the served directory has its own 404.html (read from disk for every miss)
pub fn build_tree_with(tag: &str, custom_404: bool) -> std::path::PathBuf {
    let root = crate::tree::scratch_root(tag);
    let mut t = crate::corpus::tree();
    if custom_404 {
        t.file("404.html", &crate::tree::coded_text(3000, 404));
    }
    t.entries.remove("four-mib.bin");
    t.file("targets/small.txt", b"small target behind a link\n");
    t.file("targets/big.bin", &crate::tree::coded(30000, 5));
    t.link("link-small.txt", "@/targets/small.txt");
    t.link("link-big.bin", "@/targets/big.bin");
    t.file("UPPER.TXT", b"upper-case extension\n");
    t.file("Photo.Jpg", b"\xff\xd8\xff mixed-case jpg");
    t.file("photo.jpg", b"\xff\xd8\xff lower-case jpg");
    t.build(&root);
    root
}

/// canonical form of a response for comparison: timestamp masked; the form demo pages list
/// their fields in unspecified order (lines compared as a multiset)
pub fn canon(name: &str, raw: &[u8]) -> Vec<u8> {
    let m = mask_timestamps(raw);
    if name.starts_with("form-") {
        let (head, body) = split_lenient(&m);
        let mut lines: Vec<&[u8]> = body.split(|c| *c == b'\n').collect();
        lines.sort();
        let mut out = head;
        for l in lines {
            out.extend_from_slice(l);
            out.push(b'\n');
        }
        return out;
    }
    m
}

fn serve(req: &[u8]) -> Vec<u8> {
    let mut s = MockStream::new(req);
    let o = drive::run(Entry::Process, &mut s);
    if o.panic.is_some() {
        let mut v = b"PANIC ".to_vec();
        v.extend_from_slice(&o.raw);
        return v;
    }
    o.raw
}

/// the response a request gets alone in a fresh process
pub fn solo(req: &[u8]) -> Result<Vec<u8>, String> {
    fork_run(|| serve(req))
}

thread_local! {
    static SOLO_CACHE: std::cell::RefCell<std::collections::HashMap<(String, Vec<u8>), Vec<u8>>> = Default::default();
}
/// solo response under a named configuration (each computed once per worker process, always in
/// a fresh child)
pub fn solo_under(config: &str, req: &[u8]) -> Result<Vec<u8>, String> {
    let key = (config.to_string(), req.to_vec());
    if let Some(v) = SOLO_CACHE.with(|c| c.borrow().get(&key).cloned()) {
        return Ok(v);
    }
    let cfg = config.to_string();
    let v = fork_run(|| {
        apply_config(&cfg);
        serve(req)
    })?;
    SOLO_CACHE.with(|c| c.borrow_mut().insert(key, v.clone()));
    Ok(v)
}

fn diff_kind(name: &str, got: &[u8], want: &[u8]) -> String {
    if got.starts_with(b"PANIC") {
        return "panic".into();
    }
    let (gh, gb) = split_lenient(got);
    let (wh, wb) = split_lenient(want);
    let st = |h: &[u8]| String::from_utf8_lossy(&h[..h.len().min(12)]).to_string();
    if st(&gh) != st(&wh) {
        return format!("status-differs({}-vs-{})", st(&gh).get(9..12).unwrap_or("?"), st(&wh).get(9..12).unwrap_or("?"));
    }
    if gh != wh {
        let gl: Vec<&[u8]> = gh.split(|c| *c == b'\n').collect();
        let wl: Vec<&[u8]> = wh.split(|c| *c == b'\n').collect();
        if gl.len() != wl.len() {
            return "header-count-differs".into();
        }
        return "header-value-differs".into();
    }
    let _ = name;
    if gb != wb {
        return "body-differs".into();
    }
    "other".into()
}

// ---------------------------------------------------------------------------------------
// (1) histories

pub fn check_history(names: &[String]) -> Vec<(String, String)> {
    check_history_under("default", names)
}

pub fn check_history_under(config: &str, names: &[String]) -> Vec<(String, String)> {
    let alpha = every_request();
    let reqs: Vec<(String, Vec<u8>)> = names.iter().map(|n| (n.clone(), alpha.iter().find(|(a, _)| a == n).map(|(_, r)| r.clone()).unwrap_or_default())).collect();
    let mut fails = Vec::new();
    let solos: Vec<Vec<u8>> = match reqs.iter().map(|(_, r)| solo_under(config, r)).collect::<Result<Vec<_>, _>>() {
        Ok(s) => s,
        Err(e) => return vec![("C08:machinery:solo-run-failed".into(), e)],
    };
    let r2 = reqs.clone();
    let cfg = config.to_string();
    let out = fork_run(move || {
        apply_config(&cfg);
        let outs: Vec<String> = r2.iter().map(|(_, r)| hex(&serve(r))).collect();
        serde_json::to_vec(&outs).unwrap_or_default()
    });
    let outs: Vec<Vec<u8>> = match out {
        Ok(b) => serde_json::from_slice::<Vec<String>>(&b).unwrap_or_default().iter().map(|h| unhex(h)).collect(),
        Err(e) => return vec![(format!("C08:history:process-died:{}", names.join(">")), e)],
    };
    for (i, ((name, _), got)) in reqs.iter().zip(outs.iter()).enumerate() {
        let (g, w) = (canon(name, got), canon(name, &solos[i]));
        if g != w {
            let before: Vec<&str> = names[..i].iter().map(|s| s.as_str()).collect();
            fails.push((
                format!("C08:history:response-depends-on-earlier-requests:{}:{}", name, diff_kind(name, &g, &w)),
                format!("{} after {:?}: got {:?} alone {:?}", name, before, crate::engine::show(&got[..got.len().min(160)]), crate::engine::show(&solos[i][..solos[i].len().min(160)])),
            ));
            break;
        }
        let errs = crate::props::c10::monitor(got);
        if !errs.is_empty() && !got.starts_with(b"PANIC") {
            fails.push((format!("C08:history:hardening-headers:{}", errs[0]), format!("{} after {:?}: {:?}", name, &names[..i], errs)));
            break;
        }
    }
    fails
}

// ---------------------------------------------------------------------------------------
// (2) interleavings

#[derive(Clone, Debug)]
pub struct Exec {
    pub steps: Vec<(Option<usize>, Vec<usize>, usize, String)>,
    /// per thread: the responses to the requests it served, in order
    pub results: Vec<Vec<Vec<u8>>>,
    pub feasible: bool,
    pub diverged: Option<String>,
}

fn to_steps(e: &Exec) -> Vec<Step> {
    e.steps.iter().map(|(r, en, c, _)| Step { running: *r, enabled: en.clone(), chosen: *c, label: "" }).collect()
}

/// one execution of the given requests (one thread each) under `prefix`, in a forked child
pub fn execute(reqs: &[Vec<Vec<u8>>], prefix: &[usize]) -> Result<Exec, String> {
    execute_fs(reqs, prefix, false)
}

/// `fs_points`: every file-system call of the request threads is a scheduling point too (sysio.rs)
pub fn execute_fs(reqs: &[Vec<Vec<u8>>], prefix: &[usize], fs_points: bool) -> Result<Exec, String> {
    let reqs2: Vec<Vec<Vec<u8>>> = reqs.to_vec();
    let prefix2 = prefix.to_vec();
    let out = fork_run(move || {
        crate::sysio::enable(fs_points);
        let bodies: Vec<Box<dyn FnOnce() -> Vec<Vec<u8>> + Send + 'static>> = reqs2.iter().cloned().map(|rs| Box::new(move || rs.iter().map(|r| serve(r)).collect::<Vec<_>>()) as Box<dyn FnOnce() -> Vec<Vec<u8>> + Send + 'static>).collect();
        let x = run_schedule(bodies, &prefix2, Duration::from_secs(5));
        let v = json!({
            "steps": x.steps.iter().map(|s| json!([s.running, s.enabled, s.chosen, s.label])).collect::<Vec<_>>(),
            "results": x.results.iter().map(|r| r.as_ref().map(|bs| bs.iter().map(|b| hex(b)).collect::<Vec<_>>())).collect::<Vec<_>>(),
            "feasible": x.feasible,
            "diverged": x.diverged,
        });
        serde_json::to_vec(&v).unwrap_or_default()
    })?;
    let v: Value = serde_json::from_slice(&out).map_err(|e| format!("unreadable child report: {}", e))?;
    Ok(Exec {
        steps: v["steps"].as_array().map(|a| a.iter().map(|s| (s[0].as_u64().map(|x| x as usize), s[1].as_array().map(|e| e.iter().filter_map(|x| x.as_u64().map(|y| y as usize)).collect()).unwrap_or_default(), s[2].as_u64().unwrap_or(0) as usize, s[3].as_str().unwrap_or("").to_string())).collect()).unwrap_or_default(),
        results: v["results"].as_array().map(|a| a.iter().map(|r| r.as_array().map(|bs| bs.iter().map(|b| unhex(b.as_str().unwrap_or(""))).collect()).unwrap_or_else(|| vec![b"PANIC".to_vec()])).collect()).unwrap_or_default(),
        feasible: v["feasible"].as_bool().unwrap_or(false),
        diverged: v["diverged"].as_str().map(|s| s.to_string()),
    })
}

pub struct Explored {
    pub executions: u64,
    pub transitions: u64,
    pub infeasible: u64,
    pub max_steps: usize,
    pub capped: bool,
    pub fails: Vec<(String, String, Vec<usize>)>,
    pub distinct_orders: usize,
}

fn requests_of(names: &[String]) -> Vec<Vec<(String, Vec<u8>)>> {
    let alpha = every_request();
    names.iter().map(|entry| entry.split('+').map(|n| (n.to_string(), alpha.iter().find(|(a, _)| *a == n).map(|(_, r)| r.clone()).unwrap_or_default())).collect()).collect()
}

pub fn judge_exec(names: &[String], solos: &std::collections::HashMap<String, Vec<u8>>, x: &Exec) -> Option<(String, String)> {
    let reqs = requests_of(names);
    for (t, got_list) in x.results.iter().enumerate() {
        for (k, got) in got_list.iter().enumerate() {
            let name = reqs.get(t).and_then(|v| v.get(k)).map(|(n, _)| n.clone()).unwrap_or_default();
            let want = solos.get(&name).cloned().unwrap_or_default();
            let (g, w) = (canon(&name, got), canon(&name, &want));
            if g != w {
                return Some((
                    format!("C08:interleaving:response-differs-from-solo:{}:{}", name, diff_kind(&name, &g, &w)),
                    format!("{} (thread {}, request {}) served concurrently with {:?}: got {:?} alone {:?}", name, t, k, names, crate::engine::show(&got[..got.len().min(160)]), crate::engine::show(&want[..want.len().min(160)])),
                ));
            }
            let errs = crate::props::c10::monitor(got);
            if !errs.is_empty() && !got.starts_with(b"PANIC") {
                return Some((format!("C08:interleaving:hardening-headers:{}", errs[0]), format!("{} (thread {}, request {}) in {:?}: {:?}", name, t, k, names, errs)));
            }
        }
        if got_list.len() != reqs.get(t).map(|v| v.len()).unwrap_or(0) {
            return Some(("C08:interleaving:thread-panicked".to_string(), format!("thread {} of {:?} did not return its responses", t, names)));
        }
    }
    None
}

fn solos_of(names: &[String]) -> Result<std::collections::HashMap<String, Vec<u8>>, String> {
    let mut m = std::collections::HashMap::new();
    for seq in requests_of(names) {
        for (n, r) in seq {
            if !m.contains_key(&n) {
                m.insert(n.clone(), solo(&r)?);
            }
        }
    }
    Ok(m)
}

pub fn explore(names: &[String], bound: usize, max_exec: u64) -> Result<Explored, String> {
    explore_fs(names, bound, max_exec, false)
}

pub fn explore_fs(names: &[String], bound: usize, max_exec: u64, fs_points: bool) -> Result<Explored, String> {
    let reqs: Vec<Vec<Vec<u8>>> = requests_of(names).into_iter().map(|seq| seq.into_iter().map(|(_, r)| r).collect()).collect();
    let solos = solos_of(names)?;
    let mut ex = Explored { executions: 0, transitions: 0, infeasible: 0, max_steps: 0, capped: false, fails: vec![], distinct_orders: 0 };
    let mut orders: std::collections::HashSet<Vec<usize>> = Default::default();
    let mut stack: Vec<Vec<usize>> = vec![vec![]];
    let mut first = true;
    while let Some(prefix) = stack.pop() {
        if ex.executions >= max_exec {
            ex.capped = true;
            break;
        }
        let x = execute_fs(&reqs, &prefix, fs_points)?;
        if let Some(d) = &x.diverged {
            return Err(format!("schedule diverged while replaying a prefix: {}", d));
        }
        if first {
            // determinism: the same schedule twice gives the same observation
            let y = execute_fs(&reqs, &prefix, fs_points)?;
            let flat = |e: &Exec| -> Vec<Vec<u8>> { e.results.iter().flatten().map(|r| mask_timestamps(r)).map(|r| { let mut l: Vec<&[u8]> = r.split(|c| *c == b'\n').collect(); l.sort(); l.concat() }).collect() };
            if flat(&x) != flat(&y) || x.steps.len() != y.steps.len() {
                return Err("the same schedule executed twice gave different observations".into());
            }
            first = false;
        }
        ex.executions += 1;
        ex.transitions += x.steps.len() as u64;
        ex.max_steps = ex.max_steps.max(x.steps.len());
        if !x.feasible {
            ex.infeasible += 1;
            continue;
        }
        let choices: Vec<usize> = x.steps.iter().map(|s| s.2).collect();
        orders.insert(x.steps.iter().map(|s| s.1.get(s.2).cloned().unwrap_or(0)).collect());
        if let Some((sig, detail)) = judge_exec(names, &solos, &x) {
            if ex.fails.iter().all(|(s, _, _)| *s != sig) {
                ex.fails.push((sig, detail, choices.clone()));
            }
            if ex.fails.len() >= 3 {
                break;
            }
        }
        let steps = to_steps(&x);
        for i in prefix.len()..steps.len() {
            let p = &steps[i];
            let before = preemptions(&steps, i);
            let running_enabled = p.running.is_some() && p.enabled.first() == p.running.as_ref();
            let cost = before + if running_enabled { 1 } else { 0 };
            if cost > bound {
                continue;
            }
            for alt in 1..p.enabled.len() {
                let mut np = choices[..i].to_vec();
                np.push(alt);
                stack.push(np);
            }
        }
    }
    ex.distinct_orders = orders.len();
    Ok(ex)
}

pub fn run(ctx: &mut Ctx) {
    drive::default_config();
    let root = build_tree("c08");
    std::env::set_current_dir(&root).unwrap();
    let thorough = ctx.tier.thorough();
    let alpha = alphabet();
    let names: Vec<String> = alpha.iter().map(|(n, _)| n.to_string()).collect();
    ctx.bound("request_alphabet", json!(names));
    ctx.bound("histories", json!(if thorough { "every ordered pair and every ordered triple, each in a fresh process, compared with the solo responses" } else { "every ordered pair; every ordered triple over the 8 state-prone requests" }));
    ctx.bound("interleavings_with_follow_up", json!("two concurrent requests of a 5 (8 in thorough) element subset, one of the two threads then serves a third request (get-file or not-found): every schedule with <= 2 preemptions"));
    ctx.bound("interleavings", json!(if thorough { "every unordered pair (incl. the same request twice): every schedule with <= 3 preemptions; every unordered triple of 6 requests: <= 2 preemptions" } else { "every unordered pair (incl. the same request twice): every schedule with <= 2 preemptions (<= 1 when both are among the 6 long exchanges); 6 pairs of different requests of the same controller" }));
    // (1) histories
    let mut hist_cfg = |ctx: &mut Ctx, config: &str, h: Vec<String>| {
        let j = if config == "default" { json!({"kind": "history", "requests": h}) } else { json!({"kind": "history", "config": config, "requests": h}) };
        if !ctx.begin(j.to_string().as_bytes()) {
            return;
        }
        ctx.nontrivial();
        ctx.sample(|| j.clone());
        let fails = check_history_under(config, &h);
        ctx.add("transitions", h.len() as u64);
        ctx.add("states", 1);
        ctx.add("traces_validated_against_impl", 1);
        ctx.outcome(if fails.is_empty() { "history:independent" } else { "history:dependent" });
        for (sig, detail) in fails {
            if sig.starts_with("C08:machinery") {
                ctx.machinery_error(detail);
            } else {
                ctx.fail(&sig, || j.clone(), detail);
            }
        }
    };
    let mut hist = |ctx: &mut Ctx, h: Vec<String>| hist_cfg(ctx, "default", h);
    let all_names: Vec<String> = every_request().iter().map(|(n, _)| n.to_string()).collect();
    ctx.bound("history_only_requests", json!(history_extra().iter().map(|(n, _)| *n).collect::<Vec<_>>()));
    ctx.bound("history_configurations", json!(["default (allow-all)", "cors-configured: every ordered pair (thorough: triple) of the requests that carry an Origin or are preflights, plus get-file and head-file"]));
    for a in &all_names {
        for b in &all_names {
            hist(ctx, vec![a.clone(), b.clone()]);
        }
    }
    let prone: Vec<String> = if thorough { all_names.clone() } else { ["get-file", "get-range", "form-post-short", "form-post-long", "form-multipart", "link-small", "link-big", "bad-request"].iter().map(|s| s.to_string()).collect() };
    for a in &prone {
        for b in &prone {
            for c in &prone {
                hist(ctx, vec![a.clone(), b.clone(), c.clone()]);
            }
        }
    }
    drop(hist);
    let corsy: Vec<String> = all_names.iter().filter(|n| n.starts_with("options-") || n.contains("origin") || *n == "get-file" || *n == "head-file").cloned().collect();
    for a in &corsy {
        for b in &corsy {
            hist_cfg(ctx, "cors-configured", vec![a.clone(), b.clone()]);
            if thorough {
                for c in &corsy {
                    hist_cfg(ctx, "cors-configured", vec![a.clone(), b.clone(), c.clone()]);
                }
            }
        }
    }
    // (2) interleavings
    let bound = if thorough { 3 } else { 2 };
    let mut inter = |ctx: &mut Ctx, group: Vec<String>, bound: usize| {
        let j = json!({"kind": "interleaving", "requests": group, "preemption_bound": bound});
        if ctx.verdict_established(6) {
            return;
        }
        if !ctx.begin(j.to_string().as_bytes()) {
            return;
        }
        ctx.nontrivial();
        match explore(&group, bound, 200_000) {
            Err(e) => ctx.machinery_error(format!("{}: {}", j, e)),
            Ok(ex) => {
                ctx.add("states", ex.executions);
                ctx.add("transitions", ex.transitions);
                ctx.add("traces_validated_against_impl", ex.executions);
                ctx.add("infeasible_schedules", ex.infeasible);
                ctx.add("distinct_interleavings_observed", ex.distinct_orders as u64);
                if ex.capped {
                    ctx.machinery_error(format!("{}: execution cap hit", j));
                }
                ctx.sample(|| json!({"kind":"interleaving","requests":group,"preemption_bound":bound,"schedules_executed":ex.executions,"longest_schedule":ex.max_steps,"distinct_thread_orders":ex.distinct_orders}));
                ctx.outcome(if ex.fails.is_empty() { "interleaving:isolated" } else { "interleaving:influenced" });
                for (sig, detail, schedule) in ex.fails {
                    ctx.fail(&sig, || json!({"kind":"interleaving","requests":group,"schedule":schedule}), detail);
                }
            }
        }
    };
    // quick tier: pairs of two long exchanges (many write points each) get one preemption less
    let long_ones = ["get-big", "link-big", "get-multi-range", "form-multipart", "builtin-index", "builtin-style"];
    for (i, a) in names.iter().enumerate() {
        for b in names.iter().skip(i) {
            let both_long = long_ones.contains(&a.as_str()) && long_ones.contains(&b.as_str());
            inter(ctx, vec![a.clone(), b.clone()], if both_long && !thorough { bound - 1 } else { bound });
        }
    }
    // two different requests of the same controller side by side (what one of them parks in
    // shared state between matching and processing, the other may pick up)
    for (a, b) in [("form-get", "form-get-other"), ("options-preflight", "options-preflight-put"), ("get-file", "get-file-query"), ("get-with-origin", "get-with-origin-foo"), ("not-found", "head-missing"), ("get-range", "get-suffix-range-other")] {
        inter(ctx, vec![a.to_string(), b.to_string()], bound);
    }
    // two concurrent requests and a third one served afterwards by one of the two threads:
    // what a race leaves behind only shows in a later response
    let first: Vec<&str> = if thorough { vec!["get-file", "form-post-short", "link-small", "options-preflight", "not-found", "bad-request", "get-with-origin", "builtin-index"] } else { vec!["get-file", "form-post-short", "link-small", "not-found"] };
    for (i, a) in first.iter().enumerate() {
        for b in first.iter().skip(i) {
            for probe in ["get-file", "not-found"] {
                inter(ctx, vec![format!("{}+{}", a, probe), b.to_string()], 2);
            }
        }
    }
    if thorough {
        let six: Vec<String> = ["get-file", "form-post-long", "link-small", "link-big", "options-preflight", "bad-request"].iter().map(|s| s.to_string()).collect();
        for (i, a) in six.iter().enumerate() {
            for (k, b) in six.iter().enumerate().skip(i) {
                for c in six.iter().skip(k) {
                    inter(ctx, vec![a.clone(), b.clone(), c.clone()], 2);
                }
            }
        }
    }
    // (3) interleavings at the level of file-system calls: every read / lseek / statx of the two
    //     request threads is a scheduling point as well, on a tree that has its own 404.html
    //     (so that a miss reads a file too)
    let root2 = build_tree_with("c08fs", true);
    std::env::set_current_dir(&root2).unwrap();
    let fs_names: Vec<&str> = if thorough { vec!["not-found", "head-missing", "get-file", "get-range", "get-big", "dir-index", "link-small", "get-html-fallback", "builtin-index"] } else { vec!["not-found", "head-missing", "get-file", "dir-index", "link-small"] };
    let fs_bound = 2;
    ctx.bound("fs_level_interleavings", json!({"requests": fs_names, "groups": "every unordered pair incl. the same request twice", "preemption_bound": fs_bound, "scheduling_points": "hook points + every read, lseek, pread and statx of the request threads", "tree": "the C08 tree plus a 3000-byte 404.html"}));
    for (i, a) in fs_names.iter().enumerate() {
        for b in fs_names.iter().skip(i) {
            let group = vec![a.to_string(), b.to_string()];
            let j = json!({"kind": "interleaving", "fs_points": true, "requests": group, "preemption_bound": fs_bound});
            if ctx.verdict_established(6) {
                break;
            }
            if !ctx.begin(j.to_string().as_bytes()) {
                continue;
            }
            ctx.nontrivial();
            match explore_fs(&group, fs_bound, 400_000, true) {
                Err(e) => ctx.machinery_error(format!("{}: {}", j, e)),
                Ok(ex) => {
                    ctx.add("states", ex.executions);
                    ctx.add("transitions", ex.transitions);
                    ctx.add("traces_validated_against_impl", ex.executions);
                    ctx.add("fs_level_schedules", ex.executions);
                    ctx.add("infeasible_schedules", ex.infeasible);
                    if ex.capped {
                        ctx.machinery_error(format!("{}: execution cap hit", j));
                    }
                    ctx.sample(|| json!({"kind":"interleaving","fs_points":true,"requests":group,"preemption_bound":fs_bound,"schedules_executed":ex.executions,"longest_schedule":ex.max_steps}));
                    ctx.outcome(if ex.fails.is_empty() { "fs-interleaving:isolated" } else { "fs-interleaving:influenced" });
                    for (sig, detail, schedule) in ex.fails {
                        ctx.fail(&sig, || json!({"kind":"interleaving","fs_points":true,"requests":group,"schedule":schedule}), detail);
                    }
                }
            }
        }
    }
    std::env::set_current_dir("/").unwrap();
    let _ = std::fs::remove_dir_all(&root2);
    let _ = std::fs::remove_dir_all(&root);
}

pub fn replay(v: &Value) -> Vec<Failure> {
    drive::default_config();
    let fs = v["fs_points"].as_bool().unwrap_or(false);
    let root = build_tree_with("c08r", fs);
    std::env::set_current_dir(&root).unwrap();
    let names: Vec<String> = v["requests"].as_array().map(|a| a.iter().filter_map(|x| x.as_str().map(|s| s.to_string())).collect()).unwrap_or_default();
    let mut out = Vec::new();
    if v["kind"].as_str() == Some("history") {
        for (signature, detail) in check_history_under(v["config"].as_str().unwrap_or("default"), &names) {
            out.push(Failure { signature, case: v.clone(), detail, hash: 0 });
        }
    } else {
        let reqs: Vec<Vec<Vec<u8>>> = requests_of(&names).into_iter().map(|seq| seq.into_iter().map(|(_, r)| r).collect()).collect();
        let schedule: Vec<usize> = v["schedule"].as_array().map(|a| a.iter().filter_map(|x| x.as_u64().map(|y| y as usize)).collect()).unwrap_or_default();
        if let Ok(solos) = solos_of(&names) {
            // replay the recorded schedule twice: identical observations, then judge
            let a = execute_fs(&reqs, &schedule, fs);
            let b = execute_fs(&reqs, &schedule, fs);
            if let (Ok(a), Ok(b)) = (a, b) {
                if a.diverged.is_some() || b.diverged.is_some() {
                    out.push(Failure { signature: "C08:machinery:schedule-diverged-on-replay".into(), case: v.clone(), detail: format!("{:?}", a.diverged), hash: 0 });
                } else if let Some((signature, detail)) = judge_exec(&names, &solos, &a) {
                    if judge_exec(&names, &solos, &b).map(|x| x.0) == Some(signature.clone()) {
                        out.push(Failure { signature, case: v.clone(), detail, hash: 0 });
                    }
                }
            }
        }
    }
    std::env::set_current_dir("/").unwrap();
    let _ = std::fs::remove_dir_all(&root);
    out
}
