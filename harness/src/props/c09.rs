//! C09 - HEAD and OPTIONS behave consistently with GET.

use crate::drive::{self, Entry};
use crate::engine::{panic_class, show, Ctx, Failure};
use crate::oracle::http::{parse_response, BodyRule, Resp};
use crate::oracle::lookup::{self, Looked};
use crate::props::c02;
use crate::transport::MockStream;
use crate::tree::TreeSpec;
use serde_json::{json, Value};

pub const BUILTIN: &[&str] = &["/", "/style.css", "/script.js", "/favicon.svg"];
pub const ORIGINS: &[Option<&str>] = &[None, Some("https://foo.example")];
/// "...:lower" / ":upper": the request's Origin and Access-Control-Request-* header NAMES in that letter case
pub const PREFLIGHT: &[&str] = &["none", "method", "method+headers", "method+headers:lower", "method+headers:upper"];
pub const RANGES: &[Option<&str>] = &[None, Some("bytes=0-0")];
/// "configured": the switch off and every list set; the variants leave the credentials setting
/// unset (its shipped default is the empty string), off, or not a boolean literal
pub const MODES: &[&str] = &["allow-all", "configured", "configured-credentials-unset", "configured-credentials-off", "configured-credentials-junk"];

#[derive(Clone, Debug)]
pub struct Case {
    pub mode: String,
    pub entry: Entry,
    pub target: String,
    pub origin: Option<String>,
    pub preflight: String,
    pub range: Option<String>,
}
impl Case {
    pub fn to_json(&self) -> Value {
        json!({"mode": self.mode, "entry": self.entry.name(), "target": self.target, "origin": self.origin, "preflight": self.preflight, "range": self.range})
    }
    pub fn from_json(v: &Value) -> Case {
        Case {
            mode: v["mode"].as_str().unwrap_or("allow-all").to_string(),
            entry: Entry::from_name(v["entry"].as_str().unwrap_or("")),
            target: v["target"].as_str().unwrap_or("/").to_string(),
            origin: v["origin"].as_str().map(|s| s.to_string()),
            preflight: v["preflight"].as_str().unwrap_or("none").to_string(),
            range: v["range"].as_str().map(|s| s.to_string()),
        }
    }
}

pub fn set_mode(mode: &str) {
    if mode.starts_with("configured") {
        std::env::set_var("RWS_CONFIG_CORS_ALLOW_ALL", "false");
        std::env::set_var("RWS_CONFIG_CORS_ALLOW_ORIGINS", "https://foo.example,https://bar.example");
        std::env::set_var("RWS_CONFIG_CORS_ALLOW_METHODS", "GET,POST,PUT");
        std::env::set_var("RWS_CONFIG_CORS_ALLOW_HEADERS", "content-type,x-custom");
        std::env::set_var("RWS_CONFIG_CORS_ALLOW_CREDENTIALS", match mode {
            "configured-credentials-unset" => "",
            "configured-credentials-off" => "false",
            "configured-credentials-junk" => "yes",
            _ => "true",
        });
        std::env::set_var("RWS_CONFIG_CORS_EXPOSE_HEADERS", "content-type");
        std::env::set_var("RWS_CONFIG_CORS_MAX_AGE", "600");
    } else {
        std::env::set_var("RWS_CONFIG_CORS_ALLOW_ALL", "true");
        std::env::set_var("RWS_CONFIG_CORS_ALLOW_ORIGINS", "");
        std::env::set_var("RWS_CONFIG_CORS_ALLOW_METHODS", "");
        std::env::set_var("RWS_CONFIG_CORS_ALLOW_HEADERS", "");
        std::env::set_var("RWS_CONFIG_CORS_ALLOW_CREDENTIALS", "");
        std::env::set_var("RWS_CONFIG_CORS_EXPOSE_HEADERS", "");
        std::env::set_var("RWS_CONFIG_CORS_MAX_AGE", "86400");
    }
}

fn request(case: &Case, method: &str) -> Vec<u8> {
    let mut h: Vec<(&str, &str)> = vec![("Host", "localhost")];
    let (kind, spelling) = case.preflight.split_once(':').unwrap_or((case.preflight.as_str(), ""));
    let names: [&str; 3] = match spelling {
        "lower" => ["origin", "access-control-request-method", "access-control-request-headers"],
        "upper" => ["ORIGIN", "ACCESS-CONTROL-REQUEST-METHOD", "ACCESS-CONTROL-REQUEST-HEADERS"],
        _ => ["Origin", "Access-Control-Request-Method", "Access-Control-Request-Headers"],
    };
    if let Some(o) = &case.origin {
        h.push((names[0], o.as_str()));
    }
    if kind != "none" {
        h.push((names[1], "POST"));
    }
    if kind == "method+headers" {
        h.push((names[2], "Content-Type"));
    }
    if let Some(r) = &case.range {
        h.push(("Range", r.as_str()));
    }
    drive::request_bytes(method, &case.target, "HTTP/1.1", &h, b"")
}

fn exchange(case: &Case, method: &str) -> Result<(Resp, Vec<u8>), String> {
    let req = request(case, method);
    let mut s = MockStream::new(&req);
    let out = drive::run(case.entry, &mut s);
    if let Some(p) = &out.panic {
        return Err(format!("panic:{}:{}", crate::props::c04::call_site(&p.location), panic_class(&p.message)));
    }
    // lenient about Content-Length here (C05 judges framing); we need the pieces
    let raw = out.raw.clone();
    let (head, body) = crate::oracle::http::split_lenient(&raw);
    let mut fake = head.clone();
    let resp = parse_response(&fake, BodyRule::Bodiless).map_err(|e| {
        // tolerate a Content-Length complaint: parse with the body cut off never raises it
        format!("malformed:{}", e.join("; "))
    })?;
    Ok((Resp { body: body.clone(), ..resp }, raw))
}

fn masked_headers(r: &Resp) -> Vec<(String, String)> {
    r.headers.iter().filter(|(n, _)| !n.eq_ignore_ascii_case("Date-Unix-Epoch-Nanos")).cloned().collect()
}

pub fn check(case: &Case) -> (String, bool, Vec<(String, String)>) {
    let pre = format!("C09:{}", case.entry.name());
    let kind = if BUILTIN.contains(&case.target.as_str()) { "builtin" } else { "static" };
    let mut fails = Vec::new();
    let get = match exchange(case, "GET") {
        Ok(x) => x.0,
        Err(e) => {
            fails.push((format!("{}:GET:{}", pre, e.split(';').next().unwrap_or("")), e));
            return ("get-broken".into(), true, fails);
        }
    };
    if !(get.code == 200 || get.code == 206) {
        // GET does not serve this path: outside the property's domain
        return (format!("get-{}", get.code), false, fails);
    }
    // HEAD
    match exchange(case, "HEAD") {
        Err(e) => fails.push((format!("{}:{}:HEAD:{}", pre, kind, e.split(';').next().unwrap_or("")), e)),
        Ok((head, _)) => {
            if head.code != get.code {
                fails.push((format!("{}:{}:HEAD-status-differs-from-GET:{}-vs-{}", pre, kind, head.code, get.code), format!("HEAD {} -> {}, GET -> {}", case.target, head.code, get.code)));
            } else {
                if !head.body.is_empty() {
                    fails.push((format!("{}:{}:HEAD-has-a-body", pre, kind), format!("{} bytes", head.body.len())));
                }
                let (hg, hh) = (masked_headers(&get), masked_headers(&head));
                if hg != hh {
                    let missing: Vec<String> = hg.iter().filter(|x| !hh.contains(x)).map(|(n, v)| format!("{}: {}", n, v)).collect();
                    let extra: Vec<String> = hh.iter().filter(|x| !hg.contains(x)).map(|(n, v)| format!("{}: {}", n, v)).collect();
                    let what = if missing.iter().chain(extra.iter()).any(|l| l.to_ascii_lowercase().starts_with("content-length")) { "content-length" } else if missing.is_empty() && extra.is_empty() { "order" } else { "other" };
                    fails.push((format!("{}:{}:HEAD-headers-differ-from-GET:{}", pre, kind, what), format!("missing {:?} extra {:?}", missing, extra)));
                }
                if head.get("Content-Length").and_then(|v| v.parse::<usize>().ok()) != Some(get.body.len()) && get.get("Content-Length").is_some() {
                    fails.push((format!("{}:{}:HEAD-content-length-is-not-the-GET-body-length", pre, kind), format!("{:?} vs {}", head.get("Content-Length"), get.body.len())));
                }
            }
        }
    }
    // OPTIONS
    match exchange(case, "OPTIONS") {
        Err(e) => fails.push((format!("{}:{}:OPTIONS:{}", pre, kind, e.split(';').next().unwrap_or("")), e)),
        Ok((opt, _)) => {
            if !(200..300).contains(&opt.code) {
                fails.push((format!("{}:{}:OPTIONS-not-a-success:{}", pre, kind, opt.code), format!("OPTIONS {} -> {}", case.target, opt.code)));
            } else {
                if !opt.body.is_empty() {
                    fails.push((format!("{}:{}:OPTIONS-has-a-body", pre, kind), format!("{} bytes", opt.body.len())));
                }
                if let Some(o) = &case.origin {
                    // grants of the active mode
                    let acao = opt.get("Access-Control-Allow-Origin");
                    if acao != Some(o.as_str()) {
                        fails.push((format!("{}:{}:OPTIONS-without-allow-origin", pre, kind), format!("{:?}", acao)));
                    }
                    if case.preflight != "none" {
                        let want_methods = if case.mode.starts_with("configured") { "GET,POST,PUT" } else { "POST" };
                        let got = opt.get("Access-Control-Allow-Methods").unwrap_or("");
                        if !got.split(',').any(|m| m.trim().eq_ignore_ascii_case("POST")) || (case.mode.starts_with("configured") && got != want_methods) {
                            fails.push((format!("{}:{}:OPTIONS-preflight-methods", pre, kind), format!("{:?} (mode {})", got, case.mode)));
                        }
                        if opt.get("Access-Control-Max-Age").is_none() {
                            fails.push((format!("{}:{}:OPTIONS-preflight-max-age-missing", pre, kind), String::new()));
                        }
                    }
                    if case.preflight.starts_with("method+headers") {
                        let got = opt.get("Access-Control-Allow-Headers").unwrap_or("");
                        if !got.split(',').any(|m| m.trim().eq_ignore_ascii_case("content-type")) {
                            fails.push((format!("{}:{}:OPTIONS-preflight-headers", pre, kind), format!("{:?}", got)));
                        }
                    }
                } else if opt.headers.iter().any(|(n, _)| n.to_ascii_lowercase().starts_with("access-control-")) {
                    fails.push((format!("{}:{}:OPTIONS-grants-without-origin", pre, kind), String::new()));
                }
            }
        }
    }
    (format!("served-{}", get.code), true, fails)
}

/// files of length 0, 1, 2 (plain, as a directory index, as an .html fallback)
pub fn add_small_files(t: &mut TreeSpec) {
    for (n, c) in [("z0", &b""[..]), ("z1", &b"x"[..]), ("z2", &b"xy"[..])] {
        t.file(&format!("small/{}.txt", n), c);
        t.file(&format!("small/{}dir/index.html", n), c);
        t.file(&format!("small/{}page.html", n), c);
    }
}

pub fn targets(tree: &TreeSpec) -> Vec<String> {
    let mut v: Vec<String> = BUILTIN.iter().map(|s| s.to_string()).collect();
    for n in ["z0", "z1", "z2"] {
        v.push(format!("/small/{}.txt", n));
        v.push(format!("/small/{}dir/", n));
        v.push(format!("/small/{}page", n));
    }
    for lvl in ["", "lvl/"] {
        for shape in c02::SHAPES.iter().take(2) {
            for i in 0..c02::X_KINDS.len() {
                for j in 0..c02::H_KINDS.len() {
                    let x = format!("{}{}", lvl, c02::base_name(shape, i, j));
                    for sp in ["/{x}", "/{x}/", "/{x}.html", "/{x}/index.html", "/{x}?q=1"] {
                        let t = sp.replace("{x}", &x);
                        if let Looked::File(_) = lookup::lookup(tree, &t) {
                            v.push(t);
                        }
                    }
                }
            }
        }
    }
    v.sort();
    v.dedup();
    v
}

pub fn run(ctx: &mut Ctx) {
    drive::default_config();
    let root = crate::tree::scratch_root("c09");
    let mut tree = c02::competition_tree();
    add_small_files(&mut tree);
    tree.build(&root);
    std::env::set_current_dir(&root).unwrap();
    let ts = targets(&tree);
    ctx.bound("targets", json!(format!("{} servable paths of the C02 lookup trees (2 name shapes x 2 levels x 5 spellings) + {:?}", ts.len() - BUILTIN.len(), BUILTIN)));
    ctx.bound("dimensions", json!({"origin": ORIGINS, "preflight": PREFLIGHT, "range": RANGES, "cors_mode": MODES, "entry_points": ["process", "process_request"]}));
    for mode in MODES {
        set_mode(mode);
        for entry in [Entry::Process, Entry::Legacy] {
            for t in &ts {
                for o in ORIGINS {
                    for p in PREFLIGHT {
                        for r in RANGES {
                            let case = Case { mode: mode.to_string(), entry, target: t.clone(), origin: o.map(|s| s.to_string()), preflight: p.to_string(), range: r.map(|s| s.to_string()) };
                            let key = case.to_json().to_string();
                            if !ctx.begin(key.as_bytes()) {
                                continue;
                            }
                            let (class, nt, fails) = check(&case);
                            if nt {
                                ctx.nontrivial();
                                ctx.sample(|| case.to_json());
                            }
                            ctx.outcome(&class);
                            for (sig, detail) in fails {
                                ctx.fail(&sig, || case.to_json(), detail);
                            }
                        }
                    }
                }
            }
        }
    }
    set_mode("allow-all");
    std::env::set_current_dir("/").unwrap();
    let _ = std::fs::remove_dir_all(&root);
}

pub fn replay(v: &Value) -> Vec<Failure> {
    drive::default_config();
    let root = crate::tree::scratch_root("c09r");
    let mut tree = c02::competition_tree();
    add_small_files(&mut tree);
    tree.build(&root);
    std::env::set_current_dir(&root).unwrap();
    let case = Case::from_json(v);
    set_mode(&case.mode);
    let (_, _, fails) = check(&case);
    std::env::set_current_dir("/").unwrap();
    let _ = std::fs::remove_dir_all(&root);
    fails.into_iter().map(|(signature, detail)| Failure { signature, case: v.clone(), detail, hash: 0 }).collect()
}
