//! C10 - every response carries the hardening and no-cache headers, each exactly once.
//! A monitor over every response of: the C04 corpus (single deviations), the method x
//! Origin x preflight x Range x CORS-mode grid of C09, and a cover set reaching every
//! status class an entry point can produce (incl. a deterministic 500).

use crate::app::App;
use crate::core::New;
use crate::corpus::{self, AppKind, ReadKind};
use crate::drive::{self, Entry, Scripted};
use crate::engine::{panic_class, show, Ctx, Failure};
use crate::oracle::http::split_lenient;
use crate::props::{c04, c09};
use crate::transport::{MockStream, ReadPlan};
use serde_json::{json, Value};

pub const NO_STORE: &str = "no-store, no-cache, private, max-age=0, must-revalidate, proxy-revalidate";

fn headers_lenient(raw: &[u8]) -> Vec<(String, String)> {
    let (head, _) = split_lenient(raw);
    String::from_utf8_lossy(&head).split("\r\n").skip(1).filter_map(|l| l.split_once(':').map(|(n, v)| (n.trim().to_string(), v.trim().to_string()))).collect()
}

/// the monitor: list of complaints
pub fn monitor(raw: &[u8]) -> Vec<String> {
    let h = headers_lenient(raw);
    let all = |name: &str| -> Vec<&str> { h.iter().filter(|(n, _)| n.eq_ignore_ascii_case(name)).map(|(_, v)| v.as_str()).collect() };
    let mut errs = Vec::new();
    let mut exact = |name: &str, want: &str| {
        let v = all(name);
        if v.is_empty() {
            errs.push(format!("{}-missing", name));
        } else if v.len() > 1 {
            errs.push(format!("{}-repeated", name));
        } else if !v[0].eq_ignore_ascii_case(want) {
            errs.push(format!("{}-wrong-value", name));
        }
    };
    exact("X-Content-Type-Options", "nosniff");
    exact("X-Frame-Options", "SAMEORIGIN");
    exact("Cache-Control", NO_STORE);
    exact("Accept-Ranges", "bytes");
    let ch = all("Accept-CH");
    if ch.is_empty() {
        errs.push("Accept-CH-missing".to_string());
    } else if ch.len() > 1 {
        errs.push("Accept-CH-repeated".to_string());
    } else if !ch[0].contains("Sec-CH-UA") {
        errs.push("Accept-CH-wrong-value".to_string());
    }
    let vary = all("Vary");
    if vary.is_empty() {
        errs.push("Vary-missing".to_string());
    } else if vary.len() > 1 {
        errs.push("Vary-repeated".to_string());
    } else if !vary[0].split(',').any(|t| t.trim().eq_ignore_ascii_case("Origin")) {
        errs.push("Vary-does-not-name-Origin".to_string());
    }
    errs
}

fn status_of(raw: &[u8]) -> String {
    if raw.len() >= 12 {
        String::from_utf8_lossy(&raw[9..12]).to_string()
    } else {
        "none".into()
    }
}

#[derive(Clone, Debug)]
pub struct Grid {
    pub mode: String,
    pub entry: Entry,
    pub method: String,
    pub target: String,
    pub origin: Option<String>,
    pub preflight: String,
    pub range: Option<String>,
    pub special: String, // "", "read-err", "read-eof", "app-err", "app-ok", "root-500"
}
impl Grid {
    pub fn to_json(&self) -> Value {
        json!({"kind":"grid","mode":self.mode,"entry":self.entry.name(),"method":self.method,"target":self.target,"origin":self.origin,"preflight":self.preflight,"range":self.range,"special":self.special})
    }
    pub fn from_json(v: &Value) -> Grid {
        Grid {
            mode: v["mode"].as_str().unwrap_or("allow-all").into(),
            entry: Entry::from_name(v["entry"].as_str().unwrap_or("")),
            method: v["method"].as_str().unwrap_or("GET").into(),
            target: v["target"].as_str().unwrap_or("/").into(),
            origin: v["origin"].as_str().map(|s| s.to_string()),
            preflight: v["preflight"].as_str().unwrap_or("none").into(),
            range: v["range"].as_str().map(|s| s.to_string()),
            special: v["special"].as_str().unwrap_or("").into(),
        }
    }
    fn request(&self) -> Vec<u8> {
        let mut h: Vec<(&str, &str)> = vec![("Host", "localhost")];
        if let Some(o) = &self.origin {
            h.push(("Origin", o.as_str()));
        }
        if self.preflight != "none" {
            h.push(("Access-Control-Request-Method", "POST"));
        }
        if self.preflight == "method+headers" {
            h.push(("Access-Control-Request-Headers", "Content-Type"));
        }
        if let Some(r) = &self.range {
            h.push(("Range", r.as_str()));
        }
        let mut body: &[u8] = b"";
        if self.target == "/form-url-encoded-enctype-post-method" {
            h.push(("Content-Type", "application/x-www-form-urlencoded"));
            body = b"a=b";
        }
        if self.target == "/form-multipart-enctype-post-method" {
            h.push(("Content-Type", "multipart/form-data; boundary=XB"));
            body = corpus::MULTIPART_BODY;
        }
        // special "v:<token>": the request line names another protocol version
        let version = self.special.strip_prefix("v:").unwrap_or("HTTP/1.1");
        drive::request_bytes(&self.method, &self.target, version, &h, body)
    }
}

pub fn run_grid(g: &Grid) -> (String, Vec<(String, String)>) {
    let req = g.request();
    let mut s = MockStream::new(&req);
    match g.special.as_str() {
        "read-err" => s = s.with_read(ReadPlan::Err(std::io::ErrorKind::ConnectionReset)),
        "read-eof" => s = s.with_read(ReadPlan::Eof),
        _ => {}
    }
    let out = match g.special.as_str() {
        "app-err" => drive::run_with(g.entry, &mut s, Scripted::Err, 10000),
        "app-ok" => drive::run_with(g.entry, &mut s, Scripted::Ok200, 10000),
        _ => drive::run(g.entry, &mut s),
    };
    let pre = format!("C10:{}", g.entry.name());
    if let Some(p) = &out.panic {
        return ("panic".into(), vec![(format!("{}:panic:{}:{}", pre, c04::call_site(&p.location), panic_class(&p.message)), p.message.clone())]);
    }
    if out.raw.is_empty() {
        return ("no-response".into(), vec![]);
    }
    let st = status_of(&out.raw);
    let class = format!("{}{}", st, if g.special.is_empty() { String::new() } else { format!(":{}", g.special) });
    let errs = monitor(&out.raw);
    let fails = errs.iter().map(|e| (format!("{}:{}:{}", pre, e, cover_class(&st, &g.special, &g.method)), format!("{} {} -> {}; {:?}", g.method, g.target, st, errs))).collect();
    (class, fails)
}

fn cover_class(status: &str, special: &str, method: &str) -> String {
    if !special.is_empty() {
        return format!("{}-{}", status, special);
    }
    if method == "OPTIONS" {
        return format!("{}-OPTIONS", status);
    }
    status.to_string()
}

pub const GRID_TARGETS: &[&str] = &[
    "/", "/style.css", "/script.js", "/favicon.svg", "/file.txt", "/dir/", "/dir", "/page", "/missing", "/empty", "/big.bin",
    "/form-get-method?a=b", "/form-url-encoded-enctype-post-method", "/form-multipart-enctype-post-method", "/file-upload/initiate?name=a&size=1&lastModified=2", "/file-upload/initiate",
];
pub const GRID_METHODS: &[&str] = &["GET", "HEAD", "OPTIONS", "POST", "PUT", "DELETE", "PATCH", "TRACE", "CONNECT"];
pub const GRID_RANGES: &[Option<&str>] = &[None, Some("bytes=0-0"), Some("bytes=0-0,2-3"), Some("bytes=99999-"), Some("junk")];
pub const GRID_ORIGINS: &[Option<&str>] = &[None, Some("https://foo.example"), Some("https://evil.example")];

pub fn run(ctx: &mut Ctx) {
    drive::default_config();
    let thorough = ctx.tier.thorough();
    let root = crate::tree::scratch_root("c10");
    corpus::tree().build(&root);
    // a second root whose index.html is a link to /proc/self/mem: is_file() is true, reading fails -> 500
    let root500 = crate::tree::scratch_root("c10-500");
    let _ = std::os::unix::fs::symlink("/proc/self/mem", root500.join("index.html"));
    let _ = std::os::unix::fs::symlink("/proc/self/mem", root500.join("404.html"));
    std::fs::create_dir_all(root500.join("d")).unwrap();
    let _ = std::os::unix::fs::symlink("/proc/self/mem", root500.join("d/index.html"));
    std::env::set_current_dir(&root).unwrap();
    // 1. corpus (breadth: single deviations)
    corpus::for_each_opt(thorough, false, &mut |case| {
        if case.family == "header-lines" && case.request_size > 100_000 {
            return;
        }
        let mut key = b"corpus\0".to_vec();
        key.extend_from_slice(&case.key());
        if !ctx.begin(&key) {
            return;
        }
        let (out, _) = c04::execute(&case);
        if out.panic.is_some() || out.raw.is_empty() {
            ctx.outcome("corpus:no-response(C04)");
            return;
        }
        ctx.nontrivial();
        ctx.sample(|| json!({"kind":"corpus","case":case.to_json()}));
        let st = status_of(&out.raw);
        let special = match (case.read, case.app) {
            (ReadKind::Err, _) => "read-err",
            (ReadKind::Eof, _) => "read-eof",
            (_, AppKind::Err) => "app-err",
            (_, AppKind::Ok200) | (_, AppKind::Unregistered) => "app-ok",
            _ => "",
        };
        ctx.outcome(&format!("corpus:{}{}", st, if special.is_empty() { String::new() } else { format!(":{}", special) }));
        let errs = monitor(&out.raw);
        for e in &errs {
            // headers of a scripted application's own response are the application's business
            if matches!(case.app, AppKind::Ok200 | AppKind::Unregistered) {
                continue;
            }
            ctx.fail(&format!("C10:{}:{}:{}", case.entry.name(), e, cover_class(&st, special, &drive::method_of(&case.bytes))), || json!({"kind":"corpus","case":case.to_json()}), format!("{:?}", errs));
        }
    });
    // 2. grid
    ctx.bound("grid", json!({"targets": GRID_TARGETS, "methods": GRID_METHODS, "ranges": GRID_RANGES, "origins": GRID_ORIGINS, "preflight": c09::PREFLIGHT, "cors_modes": c09::MODES, "entry_points": ["process","process_request"], "special": ["read-err","read-eof","app-err","root-500"]}));
    for mode in c09::MODES {
        c09::set_mode(mode);
        for entry in [Entry::Process, Entry::Legacy] {
            for method in GRID_METHODS {
                for target in GRID_TARGETS {
                    for origin in GRID_ORIGINS {
                        for preflight in c09::PREFLIGHT {
                            for range in GRID_RANGES {
                                let g = Grid { mode: mode.to_string(), entry, method: method.to_string(), target: target.to_string(), origin: origin.map(|s| s.to_string()), preflight: preflight.to_string(), range: range.map(|s| s.to_string()), special: String::new() };
                                grid_case(ctx, g);
                            }
                        }
                    }
                }
            }
            // every version token the parser accepts (and two it may or may not), all methods and targets
            for version in ["HTTP/0.9", "HTTP/1.0", "HTTP/2.0", "http/1.0", "HTTP/1.2"] {
                for method in GRID_METHODS {
                    for target in GRID_TARGETS {
                        for origin in GRID_ORIGINS.iter().take(2) {
                            let g = Grid { mode: mode.to_string(), entry, method: method.to_string(), target: target.to_string(), origin: origin.map(|s| s.to_string()), preflight: "none".into(), range: None, special: format!("v:{}", version) };
                            grid_case(ctx, g);
                        }
                    }
                }
            }
            // cover set: transport and handler failures
            for special in ["read-err", "read-eof", "app-err"] {
                if entry == Entry::Legacy && special == "app-err" {
                    continue;
                }
                for origin in GRID_ORIGINS {
                    let g = Grid { mode: mode.to_string(), entry, method: "GET".into(), target: "/file.txt".into(), origin: origin.map(|s| s.to_string()), preflight: "none".into(), range: None, special: special.to_string() };
                    grid_case(ctx, g);
                }
            }
        }
    }
    // 3. deterministic 500: a root whose index.html cannot be read
    std::env::set_current_dir(&root500).unwrap();
    for mode in c09::MODES {
        c09::set_mode(mode);
        for entry in [Entry::Process, Entry::Legacy] {
            for target in ["/", "/d/", "/d", "/missing", "/index.html"] {
                for method in ["GET", "HEAD", "OPTIONS"] {
                    for origin in GRID_ORIGINS {
                        let g = Grid { mode: mode.to_string(), entry, method: method.into(), target: target.into(), origin: origin.map(|s| s.to_string()), preflight: "none".into(), range: None, special: "root-500".into() };
                        grid_case(ctx, g);
                    }
                }
            }
        }
    }
    c09::set_mode("allow-all");
    // 4. a saturated server: the real accept loop (Server::run) with every worker held by an idle
    //    connection, then more connections that send a valid request; whatever they are answered
    //    - while the workers are held or after they are released - is a response like any other
    std::env::set_current_dir(&root).unwrap();
    ctx.bound("saturated_server", json!("Server::run on a loopback listener in a forked child; workers in {1,2} all held by idle connections; 1..3 further connections send GET /file.txt; every byte they receive is monitored"));
    for workers in [1usize, 2] {
        for extra in [1usize, 2, 3] {
            let j = json!({"kind":"saturated","workers":workers,"extra":extra});
            if !ctx.begin(j.to_string().as_bytes()) {
                continue;
            }
            ctx.nontrivial();
            let (class, fails) = check_saturated(workers, extra);
            ctx.outcome(&format!("saturated:{}", class));
            for (sig, detail) in fails {
                ctx.fail(&sig, || j.clone(), detail);
            }
        }
    }
    std::env::set_current_dir("/").unwrap();
    let _ = std::fs::remove_dir_all(&root);
    let _ = std::fs::remove_dir_all(&root500);
}

/// runs in a forked child; returns the bytes each further connection received (hex, JSON list)
fn saturated_child(workers: usize, extra: usize) -> Vec<u8> {
    use std::io::{Read, Write};
    use std::net::{TcpListener, TcpStream};
    use std::time::Duration;
    let listener = match TcpListener::bind("127.0.0.1:0") {
        Ok(l) => l,
        Err(e) => return serde_json::to_vec(&json!({"error": format!("bind: {}", e)})).unwrap(),
    };
    let addr = listener.local_addr().unwrap();
    std::thread::Builder::new()
        .name("accept".into())
        .spawn(move || {
            let pool = crate::thread_pool::ThreadPool::new(workers);
            crate::server::Server::run(listener, pool, <crate::app::App as crate::core::New>::new());
        })
        .unwrap();
    let mut idle = Vec::new();
    for _ in 0..workers {
        if let Ok(s) = TcpStream::connect_timeout(&addr, Duration::from_secs(2)) {
            idle.push(s);
        }
        std::thread::sleep(Duration::from_millis(20));
    }
    std::thread::sleep(Duration::from_millis(100));
    let mut conns = Vec::new();
    for _ in 0..extra {
        if let Ok(mut s) = TcpStream::connect_timeout(&addr, Duration::from_secs(2)) {
            let _ = s.write_all(b"GET /file.txt HTTP/1.1\r\nHost: localhost\r\n\r\n");
            let _ = s.set_read_timeout(Some(Duration::from_millis(300)));
            conns.push((s, Vec::new()));
        }
    }
    // what arrives while every worker is held
    for (s, got) in conns.iter_mut() {
        let mut buf = [0u8; 65536];
        loop {
            match s.read(&mut buf) {
                Ok(0) => break,
                Ok(n) => got.extend_from_slice(&buf[..n]),
                Err(_) => break,
            }
        }
    }
    let early: Vec<usize> = conns.iter().map(|(_, g)| g.len()).collect();
    drop(idle); // the idle clients go away: their workers become free
    for (s, got) in conns.iter_mut() {
        let _ = s.set_read_timeout(Some(Duration::from_secs(5)));
        let mut buf = [0u8; 65536];
        loop {
            match s.read(&mut buf) {
                Ok(0) => break,
                Ok(n) => got.extend_from_slice(&buf[..n]),
                Err(_) => break,
            }
        }
    }
    serde_json::to_vec(&json!({"answers": conns.iter().map(|(_, g)| crate::engine::hex(g)).collect::<Vec<_>>(), "early": early})).unwrap()
}

pub fn check_saturated(workers: usize, extra: usize) -> (String, Vec<(String, String)>) {
    let out = match crate::engine::fork_run(|| saturated_child(workers, extra)) {
        Ok(o) => o,
        Err(e) => return ("child-died".into(), vec![("C10:saturated:server-process-died".to_string(), e)]),
    };
    let v: Value = serde_json::from_slice(&out).unwrap_or(json!({"error": "unreadable"}));
    if v.get("error").is_some() {
        return ("env-error".into(), vec![]);
    }
    let mut fails = Vec::new();
    let mut classes: Vec<String> = Vec::new();
    for (i, a) in v["answers"].as_array().cloned().unwrap_or_default().iter().enumerate() {
        let raw = crate::engine::unhex(a.as_str().unwrap_or(""));
        if raw.is_empty() {
            // not answered at all: C04 / C06's business, not this property's
            classes.push("no-answer".into());
            continue;
        }
        let st = status_of(&raw);
        let when = if v["early"][i].as_u64().unwrap_or(0) > 0 { "while-all-workers-were-held" } else { "after-release" };
        classes.push(format!("{}:{}", st, when));
        for e in monitor(&raw) {
            fails.push((format!("C10:saturated-server:{}:{}:{}", e, st, when), format!("connection {} of {} further ones, {} workers: {:?}", i, extra, workers, crate::engine::show(&raw[..raw.len().min(200)]))));
        }
    }
    classes.sort();
    classes.dedup();
    (classes.join("+"), fails)
}

fn grid_case(ctx: &mut Ctx, g: Grid) {
    let key = format!("grid\0{}", g.to_json());
    if !ctx.begin(key.as_bytes()) {
        return;
    }
    let (class, fails) = run_grid(&g);
    if class != "no-response" && class != "panic" {
        ctx.nontrivial();
        ctx.sample(|| g.to_json());
    }
    ctx.outcome(&format!("grid:{}:{}", g.entry.name(), class));
    for (sig, detail) in fails {
        ctx.fail(&sig, || g.to_json(), detail);
    }
}

pub fn replay_saturated(v: &Value) -> Vec<(String, String)> {
    check_saturated(v["workers"].as_u64().unwrap_or(1) as usize, v["extra"].as_u64().unwrap_or(1) as usize).1
}

pub fn replay(v: &Value) -> Vec<Failure> {
    drive::default_config();
    let root = crate::tree::scratch_root("c10r");
    let fails: Vec<(String, String)>;
    if v["kind"].as_str() == Some("saturated") {
        corpus::tree().build(&root);
        std::env::set_current_dir(&root).unwrap();
        fails = replay_saturated(v);
    } else if v["kind"].as_str() == Some("grid") {
        let g = Grid::from_json(v);
        if g.special == "root-500" {
            let _ = std::os::unix::fs::symlink("/proc/self/mem", root.join("index.html"));
            let _ = std::os::unix::fs::symlink("/proc/self/mem", root.join("404.html"));
            std::fs::create_dir_all(root.join("d")).unwrap();
            let _ = std::os::unix::fs::symlink("/proc/self/mem", root.join("d/index.html"));
        } else {
            corpus::tree().build(&root);
        }
        std::env::set_current_dir(&root).unwrap();
        c09::set_mode(&g.mode);
        fails = run_grid(&g).1;
    } else {
        corpus::tree().build(&root);
        std::env::set_current_dir(&root).unwrap();
        let case = corpus::case_from_json(&v["case"]);
        let (out, _) = c04::execute(&case);
        let st = status_of(&out.raw);
        let special = match (case.read, case.app) {
            (ReadKind::Err, _) => "read-err",
            (ReadKind::Eof, _) => "read-eof",
            (_, AppKind::Err) => "app-err",
            (_, AppKind::Ok200) | (_, AppKind::Unregistered) => "app-ok",
            _ => "",
        };
        fails = if out.raw.is_empty() { vec![] } else { monitor(&out.raw).iter().map(|e| (format!("C10:{}:{}:{}", case.entry.name(), e, cover_class(&st, special, &drive::method_of(&case.bytes))), String::new())).collect() };
    }
    std::env::set_current_dir("/").unwrap();
    let _ = std::fs::remove_dir_all(&root);
    fails.into_iter().map(|(signature, detail)| Failure { signature, case: v.clone(), detail, hash: 0 }).collect()
}
