//! C11 - cross-origin grants follow the configuration exactly.

use crate::cors::Cors;
use crate::drive::{self, Entry};
use crate::engine::{enumerate, panic_class, Ctx, Failure};
use crate::oracle::http::split_lenient;
use crate::request::Request;
use serde_json::{json, Value};

pub const ORIGINS: &[&str] = &["https://foo.example", "https://bar.example", "http://a", "https://foo.example.evil", "https://Mixed.Example"];
pub const SWITCHES: &[Option<&str>] = &[Some("true"), Some("false"), None, Some("yes")];
pub const CREDENTIALS: &[&str] = &["true", "false", ""];
pub const LISTS: &[(&str, &str, &str)] = &[("", "", ""), ("POST", "content-type", "x-exposed"), ("GET,POST,PUT", "content-type,x-custom", "content-type,x-exposed")];
pub const MAX_AGES: &[&str] = &["86400", "0"];
pub const METHODS: &[&str] = &["GET", "HEAD", "POST", "OPTIONS"];
pub const PREFLIGHT: &[&str] = &["none", "method", "headers", "both"];

#[derive(Clone, Debug)]
pub struct Config {
    pub switch: Option<String>,
    pub origins: Vec<String>,
    pub sep: String,
    pub credentials: String,
    pub methods: String,
    pub headers: String,
    pub expose: String,
    pub max_age: String,
}
impl Config {
    pub fn to_json(&self) -> Value {
        json!({"switch": self.switch, "origins": self.origins, "sep": self.sep, "credentials": self.credentials, "methods": self.methods, "headers": self.headers, "expose": self.expose, "max_age": self.max_age})
    }
    pub fn from_json(v: &Value) -> Config {
        Config {
            switch: v["switch"].as_str().map(|s| s.to_string()),
            origins: v["origins"].as_array().map(|a| a.iter().filter_map(|x| x.as_str().map(|s| s.to_string())).collect()).unwrap_or_default(),
            sep: v["sep"].as_str().unwrap_or(",").to_string(),
            credentials: v["credentials"].as_str().unwrap_or("").to_string(),
            methods: v["methods"].as_str().unwrap_or("").to_string(),
            headers: v["headers"].as_str().unwrap_or("").to_string(),
            expose: v["expose"].as_str().unwrap_or("").to_string(),
            max_age: v["max_age"].as_str().unwrap_or("86400").to_string(),
        }
    }
    pub fn install(&self) {
        match &self.switch {
            Some(s) => std::env::set_var("RWS_CONFIG_CORS_ALLOW_ALL", s),
            None => std::env::remove_var("RWS_CONFIG_CORS_ALLOW_ALL"),
        }
        std::env::set_var("RWS_CONFIG_CORS_ALLOW_ORIGINS", self.origins.join(&self.sep));
        std::env::set_var("RWS_CONFIG_CORS_ALLOW_CREDENTIALS", &self.credentials);
        std::env::set_var("RWS_CONFIG_CORS_ALLOW_METHODS", &self.methods);
        std::env::set_var("RWS_CONFIG_CORS_ALLOW_HEADERS", &self.headers);
        std::env::set_var("RWS_CONFIG_CORS_EXPOSE_HEADERS", &self.expose);
        std::env::set_var("RWS_CONFIG_CORS_MAX_AGE", &self.max_age);
    }
}

#[derive(Clone, Debug)]
pub struct Case {
    pub config: Config,
    pub level: String, // "get_headers" | "process" | "process_request"
    pub method: String,
    pub origin: Option<String>,
    pub relation: String,
    pub preflight: String,
}
impl Case {
    pub fn to_json(&self) -> Value {
        json!({"config": self.config.to_json(), "level": self.level, "method": self.method, "origin": self.origin, "relation": self.relation, "preflight": self.preflight})
    }
    pub fn from_json(v: &Value) -> Case {
        Case {
            config: Config::from_json(&v["config"]),
            level: v["level"].as_str().unwrap_or("get_headers").to_string(),
            method: v["method"].as_str().unwrap_or("GET").to_string(),
            origin: v["origin"].as_str().map(|s| s.to_string()),
            relation: v["relation"].as_str().unwrap_or("").to_string(),
            preflight: v["preflight"].as_str().unwrap_or("none").to_string(),
        }
    }
}

/// (relation name, origin value) for a configuration
pub fn origin_variants(cfg: &Config) -> Vec<(String, Option<String>)> {
    let mut v: Vec<(String, Option<String>)> = vec![("absent".into(), None), ("empty".into(), Some(String::new())), ("unrelated".into(), Some("https://unrelated.example".into()))];
    let base: Vec<String> = if cfg.origins.is_empty() { vec![ORIGINS[0].to_string()] } else { cfg.origins.clone() };
    for (i, o) in base.iter().enumerate() {
        let tag = if cfg.origins.is_empty() { "of-unconfigured" } else { "" };
        v.push((format!("exact{}#{}", tag, i), Some(o.clone())));
        for n in [1usize, 4, o.len() - 1] {
            if n < o.len() {
                v.push((format!("proper-prefix{}", tag), Some(o[..n].to_string())));
                v.push((format!("proper-suffix{}", tag), Some(o[o.len() - n..].to_string())));
            }
        }
        if o.len() > 6 {
            v.push((format!("interior-substring{}", tag), Some(o[3..o.len() - 2].to_string())));
        }
        v.push((format!("upper-cased{}", tag), Some(o.to_ascii_uppercase())));
        v.push((format!("lower-cased{}", tag), Some(o.to_ascii_lowercase())));
        v.push((format!("trailing-slash{}", tag), Some(format!("{}/", o))));
        v.push((format!("extended{}", tag), Some(format!("{}.evil", o))));
    }
    // two Origin header lines (\u{1} separates them): a configured origin and an unconfigured one, both orders
    if let Some(c) = cfg.origins.first() {
        v.push(("two-origin-lines:configured-then-unconfigured".into(), Some(format!("{}\u{1}https://evil.example", c))));
        v.push(("two-origin-lines:unconfigured-then-configured".into(), Some(format!("https://evil.example\u{1}{}", c))));
    }
    if cfg.origins.len() >= 2 {
        v.push(("two-configured-joined-by-the-separator".into(), Some(format!("{}{}{}", cfg.origins[0], cfg.sep, cfg.origins[1]))));
        v.push(("two-configured-joined-by-comma".into(), Some(format!("{},{}", cfg.origins[0], cfg.origins[1]))));
    }
    // a variant may coincide with a configured origin (e.g. "extended" of foo.example is foo.example.evil)
    let mut out = Vec::new();
    for (rel, o) in v {
        let rel = match &o {
            Some(val) if cfg.origins.iter().any(|c| c == val) && !rel.starts_with("exact") => "exact(coincides)".to_string(),
            _ => rel,
        };
        if !out.iter().any(|(_, x): &(String, Option<String>)| *x == o) {
            out.push((rel, o));
        }
    }
    out
}

fn request_headers(case: &Case) -> Vec<(String, String)> {
    let mut h: Vec<(String, String)> = vec![("Host".into(), "localhost".into())];
    if let Some(o) = &case.origin {
        for line in o.split('\u{1}') {
            h.push(("Origin".into(), line.to_string()));
        }
    }
    if case.preflight == "method" || case.preflight == "both" {
        h.push(("Access-Control-Request-Method".into(), "PUT".into()));
    }
    if case.preflight == "headers" || case.preflight == "both" {
        h.push(("Access-Control-Request-Headers".into(), "X-Asked".into()));
    }
    h
}

/// Access-Control-* headers of the answer
pub fn observe(case: &Case) -> Result<Vec<(String, String)>, String> {
    let rh = request_headers(case);
    if case.level == "get_headers" {
        let req = Request {
            method: case.method.clone(),
            request_uri: "/file.txt".to_string(),
            http_version: "HTTP/1.1".to_string(),
            headers: rh.iter().map(|(n, v)| crate::header::Header { name: n.clone(), value: v.clone() }).collect(),
            body: vec![],
        };
        let r = crate::engine::guard(|| Cors::get_headers(&req));
        return match r {
            Ok(h) => Ok(h.into_iter().map(|x| (x.name, x.value)).filter(|(n, _)| n.to_ascii_lowercase().starts_with("access-control-")).collect()),
            Err(p) => Err(format!("panic:{}:{}", crate::props::c04::call_site(&p.location), panic_class(&p.message))),
        };
    }
    let refs: Vec<(&str, &str)> = rh.iter().map(|(n, v)| (n.as_str(), v.as_str())).collect();
    let req = drive::request_bytes(&case.method, "/file.txt", "HTTP/1.1", &refs, b"");
    let out = drive::simple(Entry::from_name(&case.level), &req);
    if let Some(p) = &out.panic {
        return Err(format!("panic:{}:{}", crate::props::c04::call_site(&p.location), panic_class(&p.message)));
    }
    let (head, _) = split_lenient(&out.raw);
    Ok(String::from_utf8_lossy(&head)
        .split("\r\n")
        .skip(1)
        .filter_map(|l| l.split_once(':').map(|(n, v)| (n.trim().to_string(), v.trim().to_string())))
        .filter(|(n, _)| n.to_ascii_lowercase().starts_with("access-control-"))
        .collect())
}

fn list_eq(a: &str, b: &str) -> bool {
    let norm = |s: &str| -> Vec<String> { s.split(',').map(|x| x.trim().to_ascii_lowercase()).filter(|x| !x.is_empty()).collect() };
    norm(a) == norm(b)
}

pub fn check(case: &Case) -> (String, bool, Vec<(String, String)>) {
    let pre = format!("C11:{}", case.level);
    let mut fails = Vec::new();
    let got = match observe(case) {
        Ok(g) => g,
        Err(e) => return ("panic".into(), true, vec![(format!("{}:{}", pre, e), e)]),
    };
    let get = |n: &str| got.iter().find(|(k, _)| k.eq_ignore_ascii_case(n)).map(|(_, v)| v.as_str());
    let cfg = &case.config;
    // no Origin header: never any grant, whatever the mode
    if case.origin.is_none() {
        if !got.is_empty() {
            fails.push((format!("{}:grants-without-an-Origin-header", pre), format!("{:?}", got)));
        }
        return ("no-origin".into(), true, fails);
    }
    let origin = case.origin.clone().unwrap();
    if origin.contains('\u{1}') {
        // several Origin lines: whichever line the server goes by, a grant names one of the lines
        // sent, and with the switch off only a configured one
        let lines: Vec<&str> = origin.split('\u{1}').collect();
        if let Some(acao) = get("Access-Control-Allow-Origin") {
            let ok = lines.contains(&acao) && (cfg.switch.as_deref() != Some("false") || cfg.origins.iter().any(|c| c.trim() == acao));
            if !ok {
                fails.push((format!("{}:several-origin-lines:grant-names-an-origin-that-is-not-configured", pre), format!("Origin lines {:?} configured {:?} -> {:?}", lines, cfg.origins, got)));
            }
        }
        return ("several-origin-lines".into(), true, fails);
    }
    match cfg.switch.as_deref() {
        Some("true") => {
            if get("Access-Control-Allow-Origin") != Some(origin.as_str()) {
                fails.push((format!("{}:allow-all:origin-not-echoed", pre), format!("{:?}", got)));
            }
            if get("Access-Control-Allow-Credentials") != Some("true") {
                fails.push((format!("{}:allow-all:credentials-not-allowed", pre), format!("{:?}", got)));
            }
            ("allow-all".into(), true, fails)
        }
        Some("false") => {
            let exact_member = cfg.origins.iter().any(|c| c.trim() == origin);
            let granted = get("Access-Control-Allow-Origin").is_some();
            if granted && !exact_member {
                fails.push((format!("{}:grant-to-an-origin-that-is-not-configured:{}", pre, case.relation.split('#').next().unwrap_or("")), format!("Origin {:?} configured {:?} -> {:?}", origin, cfg.origins, got)));
                return ("granted-wrongly".into(), true, fails);
            }
            if !granted {
                if got.iter().any(|(n, _)| !n.eq_ignore_ascii_case("Access-Control-Allow-Origin")) {
                    fails.push((format!("{}:other-grants-without-allow-origin", pre), format!("{:?}", got)));
                }
                if exact_member && cfg.sep == "," {
                    fails.push((format!("{}:configured-origin-not-granted", pre), format!("Origin {:?} configured {:?}", origin, cfg.origins)));
                }
                return (if exact_member { "member-not-granted".into() } else { "refused".into() }, true, fails);
            }
            // granted to a configured origin: the other grants follow the configuration
            if get("Access-Control-Allow-Origin") != Some(origin.as_str()) {
                fails.push((format!("{}:allow-origin-is-not-the-request-origin", pre), format!("{:?}", got)));
            }
            let cred = get("Access-Control-Allow-Credentials");
            if cfg.credentials == "true" {
                if cred != Some("true") {
                    fails.push((format!("{}:configured-credentials-not-granted", pre), format!("{:?}", got)));
                }
            } else if cred.is_some() && cred != Some("false") {
                fails.push((format!("{}:credentials-granted-though-not-configured", pre), format!("{:?}", got)));
            }
            if case.method == "OPTIONS" {
                if !list_eq(get("Access-Control-Allow-Methods").unwrap_or(""), &cfg.methods) {
                    fails.push((format!("{}:preflight-methods-are-not-the-configured-ones", pre), format!("{:?} vs {:?}", get("Access-Control-Allow-Methods"), cfg.methods)));
                }
                if !list_eq(get("Access-Control-Allow-Headers").unwrap_or(""), &cfg.headers) {
                    fails.push((format!("{}:preflight-headers-are-not-the-configured-ones", pre), format!("{:?} vs {:?}", get("Access-Control-Allow-Headers"), cfg.headers)));
                }
                if get("Access-Control-Max-Age") != Some(cfg.max_age.as_str()) {
                    fails.push((format!("{}:preflight-max-age-is-not-the-configured-one", pre), format!("{:?} vs {:?}", get("Access-Control-Max-Age"), cfg.max_age)));
                }
            }
            ("granted".into(), true, fails)
        }
        // unset / unparseable switch: the statement does not say which mode applies
        _ => ("switch-undefined".into(), false, fails),
    }
}

pub fn configs(thorough: bool, f: &mut dyn FnMut(Config)) {
    let mut origin_lists: Vec<Vec<String>> = vec![vec![]];
    for a in ORIGINS {
        origin_lists.push(vec![a.to_string()]);
    }
    for a in ORIGINS {
        for b in ORIGINS {
            if a != b {
                origin_lists.push(vec![a.to_string(), b.to_string()]);
            }
        }
    }
    origin_lists.push(ORIGINS[..3].iter().map(|s| s.to_string()).collect());
    origin_lists.push(ORIGINS.iter().map(|s| s.to_string()).collect());
    for sw in SWITCHES {
        for ol in &origin_lists {
            for sep in [",", ", "] {
                if ol.len() < 2 && sep == ", " {
                    continue;
                }
                for cred in CREDENTIALS {
                    for (m, h, e) in LISTS {
                        for age in MAX_AGES {
                            if !thorough && *age == "0" && *cred != "true" {
                                continue;
                            }
                            f(Config { switch: sw.map(|s| s.to_string()), origins: ol.clone(), sep: sep.to_string(), credentials: cred.to_string(), methods: m.to_string(), headers: h.to_string(), expose: e.to_string(), max_age: age.to_string() });
                        }
                    }
                }
            }
        }
    }
}

pub fn run(ctx: &mut Ctx) {
    drive::default_config();
    let root = crate::tree::scratch_root("c11");
    std::fs::write(root.join("file.txt"), b"0123456789").unwrap();
    std::env::set_current_dir(&root).unwrap();
    let thorough = ctx.tier.thorough();
    ctx.bound("configurations", json!({"switch": SWITCHES, "origin_lists": "every ordered selection of 0..2 of 4 origins, one of 3 and one of 4, separators ',' and ', '", "credentials": CREDENTIALS, "method/header/expose lists": LISTS.len(), "max_age": MAX_AGES}));
    ctx.bound("requests", json!({"origin": "absent, empty, unrelated, each configured origin, its proper prefixes and suffixes of length 1, 4, len-1, an interior substring, upper-cased, with trailing slash, extended, two configured origins joined", "methods": METHODS, "preflight": PREFLIGHT, "levels": ["Cors::get_headers", "Server::process", "Server::process_request"]}));
    let levels: &[&str] = &["get_headers", "process", "process_request"];
    configs(thorough, &mut |cfg| {
        let mut installed = false;
        for (rel, origin) in origin_variants(&cfg) {
            for method in METHODS {
                for pf in PREFLIGHT {
                    for level in levels {
                        // the full request path is exercised for every configuration on a thinner request grid
                        if *level != "get_headers" && !thorough && !(*pf == "both" || *pf == "none") {
                            continue;
                        }
                        let case = Case { config: cfg.clone(), level: level.to_string(), method: method.to_string(), origin: origin.clone(), relation: rel.clone(), preflight: pf.to_string() };
                        let key = case.to_json().to_string();
                        if !ctx.begin(key.as_bytes()) {
                            continue;
                        }
                        if !installed {
                            cfg.install();
                            installed = true;
                        }
                        let (class, nt, fails) = check(&case);
                        if nt {
                            ctx.nontrivial();
                            ctx.sample(|| case.to_json());
                        }
                        ctx.outcome(&class);
                        for (sig, detail) in fails {
                            ctx.fail(&sig, || case.to_json(), detail);
                        }
                    }
                }
            }
        }
    });
    crate::props::c09::set_mode("allow-all");
    std::env::set_current_dir("/").unwrap();
    let _ = std::fs::remove_dir_all(&root);
}

pub fn replay(v: &Value) -> Vec<Failure> {
    drive::default_config();
    let root = crate::tree::scratch_root("c11r");
    std::fs::write(root.join("file.txt"), b"0123456789").unwrap();
    std::env::set_current_dir(&root).unwrap();
    let case = Case::from_json(v);
    case.config.install();
    let (_, _, fails) = check(&case);
    std::env::set_current_dir("/").unwrap();
    let _ = std::fs::remove_dir_all(&root);
    fails.into_iter().map(|(signature, detail)| Failure { signature, case: v.clone(), detail, hash: 0 }).collect()
}
