//! C13 - the server never modifies the files it serves.
//! Histories of requests (every single request of an upload-shaped grid, every pair whose
//! first element is a state-setting request, the whole C04 corpus in batches) against a tree
//! whose full manifest - served root, its parent and a sibling - is compared before / after.

use crate::corpus;
use crate::drive::{self, Entry};
use crate::engine::{Ctx, Failure};
use crate::props::c04;
use crate::transport::MockStream;
use serde_json::{json, Value};
use std::collections::BTreeMap;
use std::path::{Path, PathBuf};

pub const METHODS: &[&str] = &["GET", "HEAD", "POST", "PUT", "DELETE", "CONNECT", "OPTIONS", "TRACE", "PATCH"];
pub const TARGETS: &[&str] = &[
    "/file.txt", "/dir/", "/dir/index.html", "/missing.txt", "/missing-dir/new.txt", "/", "/index.html", "/404.html", "/style.css", "/script.js", "/favicon.svg", "/empty/", "/empty/new.txt",
    "/form-get-method?name=a.txt&filename=a.txt", "/form-url-encoded-enctype-post-method", "/form-multipart-enctype-post-method",
    "/file-upload/initiate?name=a.txt&size=5&lastModified=1", "/file-upload/initiate?name=new.txt&size=100&lastModified=1", "/file-upload/initiate?name=../escaped.txt&size=100&lastModified=1",
    "/file-upload/initiate?name=dir/index.html&size=100&lastModified=1", "/a.txt", "/new.txt", "/../escaped.txt",
];
/// file names with characters that path-handling code tends to special-case
pub const ODD_FILES: &[&str] = &["q&a.html", "price;list.txt", "it's.txt", "pipe|name.txt", "with space.txt", "semi;colon dir/x.txt"];
pub const ODD_TARGETS: &[&str] = &["/q&a.html", "/price;list.txt", "/it's.txt", "/pipe|name.txt", "/with%20space.txt", "/semi;colon%20dir/x.txt", "/file.txt", "/dir/", "/big.bin"];
/// Range header values: satisfiable, refused (beyond the file, inverted, wrong unit), several
pub const RANGE_VALUES: &[&str] = &["bytes=0-0", "bytes=100000-", "bytes=7-3", "items=0-1", "bytes=0-0,-1", "bytes=-0"];
/// what the transport does to the exchange (the client goes away at different moments)
pub const TRANSPORTS: &[&str] = &["write-err@0", "write-err@head", "write-err@body", "flush-err", "read-err", "read-eof", "half-sent", "short-write"];
pub const TRANSPORT_TARGETS: &[(&str, &str, &str)] = &[("GET", "/file.txt", "none"), ("GET", "/big.bin", "none"), ("GET", "/missing.txt", "none"), ("GET", "/", "none"), ("HEAD", "/file.txt", "none"), ("OPTIONS", "/file.txt", "none"),
    ("POST", "/form-url-encoded-enctype-post-method", "urlencoded"), ("POST", "/form-multipart-enctype-post-method", "multipart:new.txt"), ("POST", "/file-upload/initiate?name=new.txt&size=100&lastModified=1", "raw"), ("PUT", "/new.txt", "raw"), ("GET", "/q&a.html", "none")];

pub const BODIES: &[&str] = &["none", "multipart:a.txt", "multipart:new.txt", "multipart:../escaped.txt", "multipart:dir/index.html", "urlencoded", "raw"];

fn multipart(filename: &str) -> Vec<u8> {
    format!("--XB\r\nContent-Disposition: form-data; name=\"name\"\r\n\r\n{f}\r\n--XB\r\nContent-Disposition: form-data; name=\"file\"; filename=\"{f}\"\r\nContent-Type: text/plain\r\n\r\nDATA\r\n--XB--\r\n", f = filename).into_bytes()
}

pub fn request(method: &str, target: &str, body: &str) -> Vec<u8> {
    request_with(method, target, body, None)
}

pub fn request_with(method: &str, target: &str, body: &str, range: Option<&str>) -> Vec<u8> {
    let mut h: Vec<(&str, &str)> = vec![("Host", "localhost")];
    if let Some(r) = range {
        h.push(("Range", r));
    }
    let b: Vec<u8>;
    if let Some(f) = body.strip_prefix("multipart:") {
        h.push(("Content-Type", "multipart/form-data; boundary=XB"));
        b = multipart(f);
    } else if body == "urlencoded" {
        h.push(("Content-Type", "application/x-www-form-urlencoded"));
        b = b"name=a.txt&filename=new.txt&path=..%2Fescaped.txt&content=DATA".to_vec();
    } else if body == "raw" {
        h.push(("Content-Type", "application/octet-stream"));
        h.push(("Content-Range", "bytes 0-3/4"));
        h.push(("Content-Disposition", "attachment; filename=\"new.txt\""));
        b = b"DATA".to_vec();
    } else {
        b = Vec::new();
    }
    drive::request_bytes(method, target, "HTTP/1.1", &h, &b)
}

pub struct Site {
    pub scratch: PathBuf,
    pub root: PathBuf,
    /// the tree with large log-like files (rebuilt as such after a violation)
    pub big: bool,
}

pub fn build_site(tag: &str) -> Site {
    let scratch = crate::tree::scratch_root(tag);
    let root = scratch.join("root");
    let mut t = corpus::tree();
    t.entries.remove("four-mib.bin");
    for (i, f) in ODD_FILES.iter().enumerate() {
        t.file(f, format!("odd file number {}\n", i).as_bytes());
    }
    t.build(&root);
    std::fs::create_dir_all(scratch.join("sibling")).unwrap();
    std::fs::write(scratch.join("sibling/sentinel.txt"), b"sibling sentinel").unwrap();
    std::fs::write(scratch.join("sentinel.txt"), b"parent sentinel").unwrap();
    // a built-in page name that is a dangling link to a place outside the root
    let _ = std::os::unix::fs::symlink("../sibling/created-through-link.svg", root.join("favicon.svg"));
    Site { scratch, root, big: false }
}

pub const BIG_NAMES: &[&str] = &["out.txt", "nohup.out", "rws.log", "access.log", "error.log", "rws.out"];
pub fn build_big_site(tag: &str) -> Site {
    let scratch = crate::tree::scratch_root(tag);
    let root = scratch.join("root");
    std::fs::create_dir_all(&root).unwrap();
    std::fs::write(root.join("file.txt"), b"0123456789").unwrap();
    let big = vec![b'l'; (8 << 20) + 1];
    for n in BIG_NAMES {
        std::fs::write(root.join(n), &big).unwrap();
    }
    std::fs::write(scratch.join("sentinel.txt"), b"parent sentinel").unwrap();
    Site { scratch, root, big: true }
}

fn diff(a: &BTreeMap<String, String>, b: &BTreeMap<String, String>) -> Vec<String> {
    let mut d = Vec::new();
    for (k, v) in a {
        match b.get(k) {
            None => d.push(format!("deleted {}", k)),
            Some(w) if w != v => d.push(format!("changed {}: {} -> {}", k, v, w)),
            _ => {}
        }
    }
    for k in b.keys() {
        if !a.contains_key(k) {
            d.push(format!("created {} ({})", k, b[k]));
        }
    }
    d
}

fn kind_of(d: &[String]) -> &'static str {
    if d.iter().any(|x| x.starts_with("created") && (x.contains(" sibling/") || x.contains(" escaped") || !x.contains(" root/"))) {
        "created-outside-the-root"
    } else if d.iter().any(|x| x.starts_with("created")) {
        "created-inside-the-root"
    } else if d.iter().any(|x| x.starts_with("deleted")) {
        "deleted"
    } else if d.iter().any(|x| x.contains(": file") ) {
        "file-changed"
    } else {
        "directory-metadata-changed"
    }
}

pub fn run_bytes(entry: Entry, req: &[u8]) {
    run_bytes_over(entry, req, "")
}

pub fn run_bytes_over(entry: Entry, req: &[u8], transport: &str) {
    use crate::transport::{ReadPlan, WritePlan};
    use std::io::ErrorKind;
    let s = MockStream::new(req);
    let mut s = match transport {
        "write-err@0" => s.with_write(WritePlan::ErrAt(0, ErrorKind::BrokenPipe)),
        "write-err@head" => s.with_write(WritePlan::ErrAt(40, ErrorKind::ConnectionReset)),
        "write-err@body" => s.with_write(WritePlan::ErrAt(1060, ErrorKind::ConnectionReset)),
        "flush-err" => s.with_flush_err(ErrorKind::BrokenPipe),
        "read-err" => s.with_read(ReadPlan::Err(ErrorKind::ConnectionReset)),
        "read-eof" => s.with_read(ReadPlan::Eof),
        "half-sent" => s.with_read(ReadPlan::Prefix(req.len() / 2)),
        "short-write" => s.with_write(WritePlan::Uniform(7)),
        _ => s,
    };
    let _ = drive::run(entry, &mut s);
}

/// run a history given as JSON; returns the manifest diff
pub fn run_history(site: &Site, hist: &Value) -> Vec<String> {
    let before = crate::tree::manifest(&site.scratch);
    for step in hist.as_array().cloned().unwrap_or_default() {
        let entry = Entry::from_name(step["entry"].as_str().unwrap_or(""));
        if step.get("case").is_some() {
            let case = corpus::case_from_json(&step["case"]);
            let _ = c04::execute(&case);
        } else {
            let req = request_with(step["method"].as_str().unwrap_or("GET"), step["target"].as_str().unwrap_or("/"), step["body"].as_str().unwrap_or("none"), step["range"].as_str());
            run_bytes_over(entry, &req, step["transport"].as_str().unwrap_or(""));
        }
    }
    let after = crate::tree::manifest(&site.scratch);
    diff(&before, &after)
}

fn step(entry: Entry, m: &str, t: &str, b: &str) -> Value {
    json!({"entry": entry.name(), "method": m, "target": t, "body": b})
}

/// the classes of the steps, runs of equal ones written once with their length
fn steps_signature(steps: &[Value]) -> String {
    let mut out: Vec<(String, usize)> = Vec::new();
    for c in steps.iter().map(class_of_step) {
        match out.last_mut() {
            Some((last, n)) if *last == c => *n += 1,
            _ => out.push((c, 1)),
        }
    }
    if out.len() > 6 {
        // a long alternating history: name its distinct classes and its length
        let mut kinds: Vec<String> = out.iter().map(|(c, _)| c.clone()).collect();
        kinds.sort();
        kinds.dedup();
        return format!("{} requests of {{{}}}", steps.len(), kinds.join(", "));
    }
    out.iter().map(|(c, n)| if *n > 1 { format!("{} x{}", c, n) } else { c.clone() }).collect::<Vec<_>>().join(" ; ")
}

fn class_of_step(s: &Value) -> String {
    if s.get("case").is_some() {
        return format!("corpus:{}", s["case"]["family"].as_str().unwrap_or(""));
    }
    let t = s["target"].as_str().unwrap_or("");
    let t = t.split('?').next().unwrap_or(t);
    let mut out = format!("{} {}", s["method"].as_str().unwrap_or(""), t);
    if let Some(r) = s["range"].as_str() {
        out.push_str(&format!(" [Range: {}]", r));
    }
    if let Some(tr) = s["transport"].as_str() {
        out.push_str(&format!(" [transport: {}]", tr));
    }
    out
}

pub fn run(ctx: &mut Ctx) {
    drive::default_config();
    let thorough = ctx.tier.thorough();
    let mut site = build_site("c13");
    std::env::set_current_dir(&site.root).unwrap();
    ctx.bound("grid", json!({"methods": METHODS, "targets": TARGETS, "bodies": BODIES, "entry_points": ["process","process_request"]}));
    ctx.bound("histories", json!(if thorough { "every single request; every ordered pair of grid requests; every triple of state-setting requests; the C04 corpus (singles and pairs of deviations) one request per history" } else { "every single request of the grid; every pair (state-setting request, any grid request); the C04 corpus (single deviations), one request per history" }));
    let mut judge = |ctx: &mut Ctx, site: &mut Site, hist: Value| {
        let key = format!("hist\0{}", hist);
        if !ctx.begin(key.as_bytes()) {
            return;
        }
        ctx.nontrivial();
        ctx.sample(|| json!({"history": hist}));
        // every history starts from the initial process state: it runs in a forked child
        let d: Vec<String> = match crate::engine::fork_run(|| serde_json::to_vec(&run_history(site, &hist)).unwrap_or_default()) {
            Ok(bytes) => serde_json::from_slice(&bytes).unwrap_or_else(|_| vec!["unreadable child report".to_string()]),
            Err(e) => {
                // a crashing request is C04's business; the tree is still compared below by the next history
                ctx.outcome("child-died");
                let _ = e;
                return;
            }
        };
        if d.is_empty() {
            ctx.outcome(&format!("unchanged:len{}", hist.as_array().map(|a| a.len()).unwrap_or(0)));
        } else {
            ctx.outcome("modified");
            let steps = hist.as_array().cloned().unwrap_or_default();
            let sig = format!("C13:{}:{}", kind_of(&d), steps_signature(&steps));
            ctx.fail(&sig, || json!({"history": hist}), d.join("; "));
            // restore the tree
            std::env::set_current_dir("/").unwrap();
            let _ = std::fs::remove_dir_all(&site.scratch);
            *site = if site.big { build_big_site("c13big") } else { build_site("c13") };
            std::env::set_current_dir(&site.root).unwrap();
        }
    };
    let mut grid: Vec<(String, String, String)> = Vec::new();
    for m in METHODS {
        for t in TARGETS {
            for b in BODIES {
                if *b != "none" && matches!(*m, "GET" | "HEAD" | "OPTIONS" | "TRACE" | "CONNECT" | "DELETE") && !thorough {
                    continue;
                }
                grid.push((m.to_string(), t.to_string(), b.to_string()));
            }
        }
    }
    let setters: Vec<(String, String, String)> = grid.iter().filter(|(m, t, b)| m == "POST" && (t.starts_with("/file-upload/initiate") || t.starts_with("/form-")) ).cloned().collect();
    for entry in [Entry::Process, Entry::Legacy] {
        for (m, t, b) in &grid {
            judge(ctx, &mut site, json!([step(entry, m, t, b)]));
        }
        let firsts = if thorough { &grid } else { &setters };
        for (m1, t1, b1) in firsts {
            for (m2, t2, b2) in &grid {
                judge(ctx, &mut site, json!([step(entry, m1, t1, b1), step(entry, m2, t2, b2)]));
            }
        }
        if thorough {
            for (m1, t1, b1) in &setters {
                for (m2, t2, b2) in &setters {
                    for (m3, t3, b3) in &setters {
                        judge(ctx, &mut site, json!([step(entry, m1, t1, b1), step(entry, m2, t2, b2), step(entry, m3, t3, b3)]));
                    }
                }
            }
        }
    }
    // names with special characters x Range values (satisfiable and refused), GET and HEAD; twice in a row
    ctx.bound("odd_names_and_ranges", json!({"files": ODD_FILES, "targets": ODD_TARGETS, "ranges": RANGE_VALUES, "methods": ["GET", "HEAD"]}));
    ctx.bound("transport_faults", json!({"transports": TRANSPORTS, "requests": TRANSPORT_TARGETS.iter().map(|(m, t, _)| format!("{} {}", m, t)).collect::<Vec<_>>(), "histories": "each alone and three times in a row"}));
    for entry in [Entry::Process, Entry::Legacy] {
        for t in ODD_TARGETS {
            for m in ["GET", "HEAD"] {
                judge(ctx, &mut site, json!([step(entry, m, t, "none")]));
                for r in RANGE_VALUES {
                    let st = json!({"entry": entry.name(), "method": m, "target": t, "body": "none", "range": r});
                    judge(ctx, &mut site, json!([st.clone()]));
                    judge(ctx, &mut site, json!([st.clone(), st]));
                }
            }
        }
        for (m, t, b) in TRANSPORT_TARGETS {
            for tr in TRANSPORTS {
                let st = json!({"entry": entry.name(), "method": m, "target": t, "body": b, "transport": tr});
                judge(ctx, &mut site, json!([st.clone()]));
                judge(ctx, &mut site, json!([st.clone(), st.clone(), st]));
            }
        }
    }
    // long histories on a tree with large files under names a server might think are its own
    // (redirected output, logs): counters that wrap after 256 requests, size thresholds
    {
        std::env::set_current_dir("/").unwrap();
        let mut big = build_big_site("c13big");
        std::env::set_current_dir(&big.root).unwrap();
        ctx.bound("long_histories", json!({"tree": BIG_NAMES, "file_size": "8 MiB + 1", "histories": "300 and 600 x GET /file.txt; 300 x GET /missing; 300 x alternating GET / HEAD / OPTIONS"}));
        for entry in [Entry::Process, Entry::Legacy] {
            let rep = |m: &str, t: &str, n: usize| -> Value { Value::Array((0..n).map(|_| step(entry, m, t, "none")).collect()) };
            judge(ctx, &mut big, rep("GET", "/file.txt", 300));
            judge(ctx, &mut big, rep("GET", "/file.txt", 600));
            judge(ctx, &mut big, rep("GET", "/missing", 300));
            judge(ctx, &mut big, Value::Array((0..300).map(|i| step(entry, ["GET", "HEAD", "OPTIONS"][i % 3], "/file.txt", "none")).collect()));
        }
        std::env::set_current_dir("/").unwrap();
        let _ = std::fs::remove_dir_all(&big.scratch);
        std::env::set_current_dir(&site.root).unwrap();
    }
    // the C04 corpus, one request per history
    corpus::for_each_opt(thorough, thorough, &mut |case| {
        if (case.family == "header-lines" && case.request_size > 100_000) || case.family == "many-ranges" {
            return;
        }
        judge(ctx, &mut site, json!([{"entry": case.entry.name(), "case": case.to_json()}]));
    });
    std::env::set_current_dir("/").unwrap();
    let _ = std::fs::remove_dir_all(&site.scratch);
}

pub fn replay(v: &Value) -> Vec<Failure> {
    drive::default_config();
    let hist = v["history"].clone();
    let site = if hist.as_array().map(|a| a.len() >= 300).unwrap_or(false) { build_big_site("c13rbig") } else { build_site("c13r") };
    std::env::set_current_dir(&site.root).unwrap();
    let d = run_history(&site, &hist);
    std::env::set_current_dir("/").unwrap();
    let _ = std::fs::remove_dir_all(&site.scratch);
    if d.is_empty() {
        return vec![];
    }
    let steps = hist.as_array().cloned().unwrap_or_default();
    vec![Failure { signature: format!("C13:{}:{}", kind_of(&d), steps_signature(&steps)), case: v.clone(), detail: d.join("; "), hash: 0 }]
}
