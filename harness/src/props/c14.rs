//! C14 - request parsing accepts exactly well-formed requests and round-trips them.

use crate::engine::{enumerate, guard, hex, panic_class, show, unhex, Ctx, Failure};
use crate::header::Header;
use crate::request::Request;
use serde_json::{json, Value};

pub const METHODS: &[&str] = &["GET", "HEAD", "POST", "PUT", "DELETE", "CONNECT", "OPTIONS", "TRACE", "PATCH"];
pub const VERSIONS: &[&str] = &["HTTP/0.9", "HTTP/1.0", "HTTP/1.1", "HTTP/2.0"];
/// incl. letters whose upper- or lower-case form has another UTF-8 length (dotless i, long s, fi ligature, capital I with dot, n preceded by apostrophe)
pub const TARGETS: &[&str] = &["/", "/a", "/a?b=c", "*", "http://h/a", "/a%20b", "/\u{e9}", "/kap\u{131}/oda", "/\u{17f}\u{fb01}les/x", "/\u{130}\u{149}/x?y=\u{390}", "/\u{df}\u{1F600}"];
pub const NAMES: &[&str] = &["A", "Host", "x-y", "Content-Length", "Content-Type"];
pub const VALUE_ALPHABET: &[&str] = &["a", ":", " ", "=", ";"];
pub const VALUE_EXTRA: &[&str] = &["", ": ", "a: b", ": a", "a: b: c", "bytes=0-1, 2-3", "text/html; charset=utf-8", "\u{e9}"];
pub const BODY_ALPHABET: &[&[u8]] = &[b"a", b"\r", b"\n", b"\0", b"\xff", b":"];
pub const BODY_EXTRA: &[&[u8]] = &[b"\r\n\r\n", b"\r\nX: y\r\n\r\n", b"GET / HTTP/1.1\r\n\r\n"];

fn mk(method: &str, target: &str, version: &str, headers: &[(String, String)], body: &[u8]) -> Request {
    Request { method: method.to_string(), request_uri: target.to_string(), http_version: version.to_string(), headers: headers.iter().map(|(n, v)| Header { name: n.clone(), value: v.clone() }).collect(), body: body.to_vec() }
}

fn req_json(r: &Request) -> Value {
    json!({"kind":"roundtrip","method": r.method, "target": r.request_uri, "version": r.http_version, "headers": r.headers.iter().map(|h| json!([h.name, h.value])).collect::<Vec<_>>(), "body_hex": hex(&r.body)})
}
fn req_from_json(v: &Value) -> Request {
    let headers: Vec<(String, String)> = v["headers"].as_array().map(|a| a.iter().map(|h| (h[0].as_str().unwrap_or("").to_string(), h[1].as_str().unwrap_or("").to_string())).collect()).unwrap_or_default();
    mk(v["method"].as_str().unwrap_or(""), v["target"].as_str().unwrap_or(""), v["version"].as_str().unwrap_or(""), &headers, &unhex(v["body_hex"].as_str().unwrap_or("")))
}

pub fn check_roundtrip(r: &Request) -> Vec<(String, String)> {
    let mut fails = Vec::new();
    let bytes = match guard(|| r.generate()) {
        Ok(b) => b,
        Err(p) => return vec![(format!("C14:panic:generate:{}:{}", crate::props::c04::call_site(&p.location), panic_class(&p.message)), p.message)],
    };
    let parsed = match guard(|| Request::parse(&bytes)) {
        Err(p) => return vec![(format!("C14:panic:parse:{}:{}", crate::props::c04::call_site(&p.location), panic_class(&p.message)), p.message)],
        Ok(Err(e)) => return vec![("C14:roundtrip:well-formed-request-rejected".to_string(), format!("{} for {:?}", e, show(&bytes[..bytes.len().min(80)])))],
        Ok(Ok(p)) => p,
    };
    if parsed.method != r.method || parsed.request_uri != r.request_uri || parsed.http_version != r.http_version {
        fails.push(("C14:roundtrip:request-line-differs".to_string(), format!("{:?} {:?} {:?}", parsed.method, parsed.request_uri, parsed.http_version)));
    }
    let got: Vec<(String, String)> = parsed.headers.iter().map(|h| (h.name.clone(), h.value.clone())).collect();
    let want: Vec<(String, String)> = r.headers.iter().map(|h| (h.name.clone(), h.value.clone())).collect();
    if got != want {
        // classify
        let sig = if got.len() == want.len() + 1 && got[0] == (String::new(), String::new()) && got[1..] == want[..] {
            "C14:roundtrip:spurious-empty-first-header".to_string()
        } else {
            let g2: Vec<(String, String)> = if !got.is_empty() && got[0] == (String::new(), String::new()) { got[1..].to_vec() } else { got.clone() };
            if g2.len() == want.len() && g2.iter().zip(want.iter()).all(|(g, w)| g.0 == w.0) {
                // names fine, some value differs
                let (g, w) = g2.iter().zip(want.iter()).find(|(g, w)| g.1 != w.1).unwrap();
                if w.1.contains(": ") && w.1.starts_with(&g.1) {
                    "C14:roundtrip:header-value-cut-at-colon-space".to_string()
                } else if w.1.trim() == g.1 {
                    "C14:roundtrip:header-value-trimmed".to_string()
                } else {
                    "C14:roundtrip:header-value-differs".to_string()
                }
            } else {
                "C14:roundtrip:header-list-differs".to_string()
            }
        };
        fails.push((sig, format!("got {:?} want {:?}", got, want)));
    }
    if parsed.body != r.body {
        fails.push(("C14:roundtrip:body-differs".to_string(), format!("got {:?} want {:?}", show(&parsed.body[..parsed.body.len().min(40)]), show(&r.body[..r.body.len().min(40)]))));
    }
    // header lookup ignores letter case: with the same name present several times in different
    // letter case, the answer may not depend on how the caller spells the name
    let mut groups: std::collections::BTreeMap<String, Vec<&Header>> = Default::default();
    for h in &r.headers {
        if !h.name.is_empty() {
            groups.entry(h.name.to_ascii_lowercase()).or_default().push(h);
        }
    }
    for (lower, hs) in &groups {
        if hs.len() < 2 {
            continue;
        }
        let mut spellings: Vec<String> = hs.iter().map(|h| h.name.clone()).collect();
        spellings.push(lower.clone());
        spellings.push(lower.to_ascii_uppercase());
        spellings.push(flip_case(lower));
        spellings.sort();
        spellings.dedup();
        let answers: Vec<(String, Option<String>)> = spellings.iter().map(|sp| (sp.clone(), parsed.get_header(sp.clone()).map(|h| h.value.clone()))).collect();
        if answers.iter().any(|(_, a)| *a != answers[0].1) {
            fails.push(("C14:lookup:answer-depends-on-the-spelling-of-the-name".to_string(), format!("{:?}", answers)));
        }
    }
    for h in &r.headers {
        if h.name.is_empty() {
            continue;
        }
        for variant in [h.name.to_ascii_uppercase(), h.name.to_ascii_lowercase(), flip_case(&h.name)] {
            match parsed.get_header(variant.clone()) {
                None => {
                    fails.push(("C14:lookup:case-variant-not-found".to_string(), format!("{:?} for header {:?}", variant, h.name)));
                    break;
                }
                Some(_) => {}
            }
        }
    }
    fails
}

fn flip_case(s: &str) -> String {
    s.chars().enumerate().map(|(i, c)| if i % 2 == 0 { c.to_ascii_uppercase() } else { c.to_ascii_lowercase() }).collect()
}

/// boundary: (bytes) -> expectation per the statement: Some(true)=must parse, Some(false)=must fail, None=left open
pub fn expect_line(method: &str, target: &str, version: &str, sep: &str, term: &str) -> Option<bool> {
    let known_m = METHODS.contains(&method);
    let known_v = VERSIONS.contains(&version);
    if method.is_empty() || target.is_empty() || version.is_empty() {
        return Some(false); // incomplete
    }
    if target.contains(' ') {
        return None; // "targets without whitespace"
    }
    let m_open = !known_m && METHODS.contains(&method.to_ascii_uppercase().as_str());
    let v_open = !known_v && VERSIONS.contains(&version.to_ascii_uppercase().as_str());
    if (!known_m && !m_open) || (!known_v && !v_open) {
        return Some(false);
    }
    if m_open || v_open || sep != " " || term != "\r\n" {
        return None; // lower case, doubled spaces / tabs, bare LF or missing terminator: left open
    }
    Some(true)
}

pub fn check_line(bytes: &[u8], expect: Option<bool>) -> (String, Vec<(String, String)>) {
    let r = guard(|| Request::parse(bytes));
    match r {
        Err(p) => ("panic".into(), vec![(format!("C14:panic:parse:{}:{}", crate::props::c04::call_site(&p.location), panic_class(&p.message)), p.message)]),
        Ok(res) => {
            let ok = res.is_ok();
            match expect {
                Some(true) if !ok => ("rejected".into(), vec![("C14:boundary:well-formed-request-line-rejected".to_string(), format!("{:?} -> {:?}", show(bytes), res.err()))]),
                Some(false) if ok => {
                    let r = res.unwrap();
                    let sig = if r.request_uri.is_empty() && METHODS.contains(&r.method.to_ascii_uppercase().as_str()) { "C14:boundary:request-line-with-an-empty-target-accepted" } else { "C14:boundary:malformed-request-line-accepted" };
                    ("accepted".into(), vec![(sig.to_string(), format!("{:?} parsed as {:?}", show(bytes), (r.method, r.request_uri, r.http_version)))])
                }
                Some(true) => ("accepted-as-required".into(), vec![]),
                Some(false) => ("rejected-as-required".into(), vec![]),
                None => (format!("open:{}", if ok { "accepted" } else { "rejected" }), vec![]),
            }
        }
    }
}

pub fn run(ctx: &mut Ctx) {
    let thorough = ctx.tier.thorough();
    // values
    let mut values: Vec<String> = Vec::new();
    enumerate::sequences(VALUE_ALPHABET.len(), if thorough { 3 } else { 2 }, &mut |idx| {
        let v = enumerate::concat_strs(VALUE_ALPHABET, idx);
        // the serialiser writes values verbatim; a value with leading/trailing space is a legal value
        values.push(v);
    });
    for e in VALUE_EXTRA {
        values.push(e.to_string());
    }
    values.sort();
    values.dedup();
    let mut bodies: Vec<Vec<u8>> = Vec::new();
    enumerate::sequences(BODY_ALPHABET.len(), if thorough { 3 } else { 2 }, &mut |idx| bodies.push(enumerate::concat_bytes(BODY_ALPHABET, idx)));
    for e in BODY_EXTRA {
        bodies.push(e.to_vec());
    }
    ctx.bound("roundtrip", json!({"methods": METHODS, "versions": VERSIONS, "targets": TARGETS, "header_names": NAMES, "header_values": format!("every string of length <= {} over {:?} plus {:?} ({} values)", if thorough { 3 } else { 2 }, VALUE_ALPHABET, VALUE_EXTRA, values.len()), "header_list_length": if thorough { "0..3 and one list of 50" } else { "0..2 and one list of 50" }, "bodies": format!("every byte string of length <= {} over {{a,CR,LF,NUL,FF,:}} plus 3 message-like bodies ({} bodies)", if thorough { 3 } else { 2 }, bodies.len())}));
    let mut rt = |ctx: &mut Ctx, r: Request| {
        let case = req_json(&r);
        let key = format!("rt\0{}", case);
        if !ctx.begin(key.as_bytes()) {
            return;
        }
        ctx.nontrivial();
        ctx.sample(|| case.clone());
        let fails = check_roundtrip(&r);
        ctx.outcome(if fails.is_empty() { "roundtrip:equal" } else { "roundtrip:differs" });
        for (sig, detail) in fails {
            ctx.fail(&sig, || case.clone(), detail);
        }
    };
    // request line x one header x body (full product on the small dimensions)
    for m in METHODS {
        for v in VERSIONS {
            for t in TARGETS {
                rt(ctx, mk(m, t, v, &[], b""));
                rt(ctx, mk(m, t, v, &[("Host".to_string(), "localhost".to_string())], b"body"));
            }
        }
    }
    // header lists of length 1..2(3) over names x values, bodies
    for n in NAMES {
        for val in &values {
            rt(ctx, mk("GET", "/a", "HTTP/1.1", &[(n.to_string(), val.clone())], b""));
            rt(ctx, mk("POST", "/a", "HTTP/1.1", &[(n.to_string(), val.clone())], b"x\r\n"));
        }
    }
    for n1 in NAMES {
        for n2 in NAMES {
            for v1 in &values {
                for v2 in &values {
                    if !thorough && !(VALUE_EXTRA.contains(&v1.as_str()) || VALUE_EXTRA.contains(&v2.as_str()) || v1.len() <= 1 || v2.len() <= 1) {
                        continue;
                    }
                    rt(ctx, mk("GET", "/a", "HTTP/1.1", &[(n1.to_string(), v1.clone()), (n2.to_string(), v2.clone())], b""));
                }
            }
        }
    }
    if thorough {
        for v1 in &values {
            for v2 in VALUE_EXTRA {
                for v3 in VALUE_EXTRA {
                    rt(ctx, mk("GET", "/a", "HTTP/1.1", &[("A".to_string(), v1.clone()), ("x-y".to_string(), v2.to_string()), ("Host".to_string(), v3.to_string())], b"b"));
                }
            }
        }
    }
    // one head line longer than any 16-bit counter: a long target, a long header value, a long header name
    for n in [65_535usize, 65_536, 70_000, 131_073] {
        rt(ctx, mk("GET", &format!("/{}", "t".repeat(n)), "HTTP/1.1", &[("Host".to_string(), "localhost".to_string())], b""));
        rt(ctx, mk("GET", "/a", "HTTP/1.1", &[("Host".to_string(), "h".to_string()), ("Cookie".to_string(), "c".repeat(n)), ("Accept".to_string(), "x".to_string())], b"b"));
        rt(ctx, mk("POST", "/a", "HTTP/1.1", &[("Host".to_string(), "h".to_string())], &vec![b'z'; n]));
    }
    let fifty: Vec<(String, String)> = (0..50).map(|i| (format!("X-H{}", i), values[i % values.len()].clone())).collect();
    rt(ctx, mk("GET", "/a", "HTTP/1.1", &fifty, b"tail"));
    // bodies; the declared length agrees with the body, is absent, or disagrees with it
    for b in &bodies {
        let mut lists: Vec<Vec<(String, String)>> = vec![vec![]];
        for name in ["Content-Length", "content-length"] {
            for declared in [b.len().to_string(), "0".to_string(), "1".to_string(), b.len().saturating_sub(1).to_string(), (b.len() + 1).to_string(), "99999".to_string(), "-1".to_string(), "a".to_string(), "".to_string()] {
                lists.push(vec![(name.to_string(), declared)]);
            }
        }
        lists.push(vec![("Transfer-Encoding".to_string(), "chunked".to_string())]);
        lists.push(vec![("Content-Length".to_string(), "1".to_string()), ("Content-Length".to_string(), "2".to_string())]);
        for hs in lists {
            rt(ctx, mk("POST", "/a", "HTTP/1.1", &hs, b));
        }
    }
    // a longer body with every declared length around it
    let long: Vec<u8> = (0..21u8).map(|i| b'a' + (i % 26)).collect();
    for declared in 0..=23usize {
        rt(ctx, mk("POST", "/a", "HTTP/1.1", &[("Content-Length".to_string(), declared.to_string())], &long));
    }
    // the same name several times in different letter case
    let dup_sets: [&[(&str, &str)]; 6] = [
        &[("X-Dup", "first"), ("x-dup", "second")],
        &[("x-dup", "first"), ("X-Dup", "second")],
        &[("x-dup", "first"), ("X-DUP", "second"), ("X-Dup", "third")],
        &[("Host", "a"), ("X-Dup", "first"), ("Accept", "b"), ("X-DUP", "second")],
        &[("X-Dup", "same"), ("X-Dup", "other")],
        &[("CONTENT-LENGTH", "1"), ("content-length", "2"), ("Content-Length", "3")],
    ];
    for set in dup_sets {
        let hs: Vec<(String, String)> = set.iter().map(|(n, v)| (n.to_string(), v.to_string())).collect();
        rt(ctx, mk("GET", "/a", "HTTP/1.1", &hs, b""));
    }
    // boundary of acceptance
    let b_methods: Vec<&str> = METHODS.iter().cloned().chain(["get", "GETT", "GE", "", "FOO", "Get"]).collect();
    let b_targets = ["/", "", "/a b"];
    let b_versions: Vec<&str> = VERSIONS.iter().cloned().chain(["HTTP/1.2", "HTTP/1", "http/1.1", "HTTP/1.1x", "", "HTTP/3.0"]).collect();
    let seps = [" ", "  ", "\t"];
    let terms = ["\r\n", "\n", ""];
    ctx.bound("boundary", json!({"methods": b_methods, "targets": b_targets, "versions": b_versions, "separators": seps, "terminators": ["CRLF","LF","none"], "plus": "invalid UTF-8 (0xFF, 0xC3) inserted at every position of 'GET /a HTTP/1.1'"}));
    for m in &b_methods {
        for t in &b_targets {
            for v in &b_versions {
                for s in &seps {
                    for term in &terms {
                        let line = format!("{}{}{}{}{}{}", m, s, t, s, v, term);
                        let mut bytes = line.clone().into_bytes();
                        if !term.is_empty() {
                            bytes.extend_from_slice(b"Host: x\r\n\r\n");
                        }
                        let key = format!("line\0{}", hex(&bytes));
                        if !ctx.begin(key.as_bytes()) {
                            continue;
                        }
                        let exp = expect_line(m, t, v, s, term);
                        if exp.is_some() {
                            ctx.nontrivial();
                        }
                        ctx.sample(|| json!({"kind":"line","bytes_hex":hex(&bytes),"expect":exp}));
                        let (class, fails) = check_line(&bytes, exp);
                        ctx.outcome(&format!("boundary:{}", class));
                        for (sig, detail) in fails {
                            ctx.fail(&sig, || json!({"kind":"line","bytes_hex":hex(&bytes),"expect":exp}), detail);
                        }
                    }
                }
            }
        }
    }
    let base = b"GET /a HTTP/1.1";
    for pos in 0..=base.len() {
        for bad in [0xFFu8, 0xC3] {
            let mut bytes = base.to_vec();
            bytes.insert(pos, bad);
            bytes.extend_from_slice(b"\r\n\r\n");
            let key = format!("line\0{}", hex(&bytes));
            if !ctx.begin(key.as_bytes()) {
                continue;
            }
            ctx.nontrivial();
            let (class, fails) = check_line(&bytes, Some(false));
            ctx.outcome(&format!("boundary:utf8:{}", class));
            for (sig, detail) in fails {
                ctx.fail(&sig, || json!({"kind":"line","bytes_hex":hex(&bytes),"expect":false}), detail);
            }
        }
    }
}

pub fn replay(v: &Value) -> Vec<Failure> {
    let fails = if v["kind"].as_str() == Some("line") {
        check_line(&unhex(v["bytes_hex"].as_str().unwrap_or("")), v["expect"].as_bool()).1
    } else {
        check_roundtrip(&req_from_json(v))
    };
    fails.into_iter().map(|(signature, detail)| Failure { signature, case: v.clone(), detail, hash: 0 }).collect()
}
