//! C15 - responses written by the library can be read back by it.

use crate::engine::{enumerate, guard, hex, panic_class, show, unhex, Ctx, Failure};
use crate::header::Header;
use crate::range::{ContentRange, Range};
use crate::request::Request;
use crate::response::Response;
use serde_json::{json, Value};

pub const BODY_ALPHABET: &[&[u8]] = &[b"a", b"\r", b"\n", b"-", b"\xff"];
pub const HEADER_SETS: &[&[(&str, &str)]] = &[&[], &[("Host", "localhost")], &[("X-A", "b"), ("Server", "rws: 1")], &[("Set-Cookie", "a=b; Path=/"), ("Set-Cookie", "c=d")],
    // the same line twice; a line that is the tail of an earlier line or of a generated one
    &[("X-A", "b"), ("X-A", "b")], &[("X-Upstream-Content-Type", "text/plain"), ("Server", "rws")], &[("X-Orig-Content-Length", "4"), ("X-Content-Range", "bytes 0-3/4")], &[("Warning", "x"), ("Warning", "x"), ("Warning", "x")]];
pub const HVALUE_ALPHABET: &[&str] = &["a", " ", "\t", ":", ";"];
pub const TYPES: &[&str] = &["text/plain", "application/octet-stream", "image/png", "text/plain; charset=UTF-8", "application/vnd.ms-Excel"];

#[derive(Clone, Debug)]
pub struct Case {
    pub serialiser: String, // "associated" | "instance"
    pub status_index: usize,
    pub headers: Vec<(String, String)>,
    /// parts: (content type, start, body). Ranges are made consistent with the body:
    /// single part: {0, len}/len (the whole-body convention the parser reproduces);
    /// several parts: {start, start+len-1}/size (start for an empty part)
    pub parts: Vec<(String, u64, Vec<u8>)>,
    pub corruption: String,
}
impl Case {
    pub fn to_json(&self) -> Value {
        json!({"serialiser": self.serialiser, "status_index": self.status_index, "headers": self.headers.iter().map(|(n, v)| json!([n, v])).collect::<Vec<_>>(), "parts": self.parts.iter().map(|(t, s, b)| json!([t, s, hex(b)])).collect::<Vec<_>>(), "corruption": self.corruption})
    }
    pub fn from_json(v: &Value) -> Case {
        Case {
            serialiser: v["serialiser"].as_str().unwrap_or("associated").to_string(),
            status_index: v["status_index"].as_u64().unwrap_or(0) as usize,
            headers: v["headers"].as_array().map(|a| a.iter().map(|h| (h[0].as_str().unwrap_or("").to_string(), h[1].as_str().unwrap_or("").to_string())).collect()).unwrap_or_default(),
            parts: v["parts"].as_array().map(|a| a.iter().map(|p| (p[0].as_str().unwrap_or("").to_string(), p[1].as_u64().unwrap_or(0), unhex(p[2].as_str().unwrap_or("")))).collect()).unwrap_or_default(),
            corruption: v["corruption"].as_str().unwrap_or("").to_string(),
        }
    }
    pub fn build(&self) -> Response {
        let list = Response::status_code_reason_phrase_list();
        let st = list[self.status_index % list.len()];
        let headers: Vec<Header> = self.headers.iter().map(|(n, v)| Header { name: n.clone(), value: v.clone() }).collect();
        let single = self.parts.len() == 1;
        let size: u64 = 100_000;
        let parts: Vec<ContentRange> = self
            .parts
            .iter()
            .map(|(t, s, b)| {
                let len = b.len() as u64;
                if single {
                    ContentRange { unit: "bytes".into(), range: Range { start: 0, end: len }, size: len.to_string(), body: b.clone(), content_type: t.clone() }
                } else {
                    ContentRange { unit: "bytes".into(), range: Range { start: *s, end: if len == 0 { *s } else { *s + len - 1 } }, size: size.to_string(), body: b.clone(), content_type: t.clone() }
                }
            })
            .collect();
        Response::get_response(st, Some(headers), Some(parts))
    }
}

fn get_request() -> Request {
    Request { method: "GET".into(), request_uri: "/".into(), http_version: "HTTP/1.1".into(), headers: vec![], body: vec![] }
}

pub fn serialise(case: &Case, r: &Response) -> Result<Vec<u8>, crate::engine::PanicInfo> {
    if case.serialiser == "instance" {
        let mut c = r.clone();
        guard(move || c.generate())
    } else {
        let c = r.clone();
        guard(move || Response::generate_response(c, get_request()))
    }
}

fn replace_first(hay: &[u8], from: &[u8], to: &[u8]) -> Option<Vec<u8>> {
    let i = hay.windows(from.len()).position(|w| w == from)?;
    let mut v = hay[..i].to_vec();
    v.extend_from_slice(to);
    v.extend_from_slice(&hay[i + from.len()..]);
    Some(v)
}

pub const CORRUPTIONS: &[&str] = &[
    "status-unregistered", "status-non-numeric", "status-out-of-i16", "phrase-of-another-status", "phrase-truncated", "phrase-first-word-only", "phrase-empty", "phrase-extended", "phrase-with-a-letter-changed", "unknown-version", "opening-boundary-removed", "part-content-range-removed", "part-content-range-non-numeric", "part-content-range-start-after-end", "part-content-range-end-after-size", "blank-line-removed", "content-length-not-a-number", "closing-boundary-removed",
];

/// None: the corruption does not apply to this serialisation
pub fn corrupt(bytes: &[u8], r: &Response, which: &str) -> Option<Vec<u8>> {
    let status = format!(" {} {}\r\n", r.status_code, r.reason_phrase);
    match which {
        "status-unregistered" => replace_first(bytes, status.as_bytes(), format!(" 299 {}\r\n", r.reason_phrase).as_bytes()),
        "status-non-numeric" => replace_first(bytes, status.as_bytes(), format!(" 2x0 {}\r\n", r.reason_phrase).as_bytes()),
        "status-out-of-i16" => replace_first(bytes, status.as_bytes(), format!(" 99999 {}\r\n", r.reason_phrase).as_bytes()),
        "phrase-of-another-status" => {
            let other = if r.status_code == 404 { "OK" } else { "Not Found" };
            replace_first(bytes, status.as_bytes(), format!(" {} {}\r\n", r.status_code, other).as_bytes())
        }
        "phrase-truncated" => {
            let p = &r.reason_phrase;
            if p.len() < 2 {
                return None;
            }
            replace_first(bytes, status.as_bytes(), format!(" {} {}\r\n", r.status_code, &p[..p.len() - 1]).as_bytes())
        }
        "phrase-first-word-only" => {
            let p = r.reason_phrase.split(' ').next().unwrap_or("").to_string();
            if p == r.reason_phrase {
                return None;
            }
            replace_first(bytes, status.as_bytes(), format!(" {} {}\r\n", r.status_code, p).as_bytes())
        }
        "phrase-empty" => replace_first(bytes, status.as_bytes(), format!(" {} \r\n", r.status_code).as_bytes()),
        "phrase-extended" => replace_first(bytes, status.as_bytes(), format!(" {} {}ish\r\n", r.status_code, r.reason_phrase).as_bytes()),
        "phrase-with-a-letter-changed" => {
            let mut p: Vec<char> = r.reason_phrase.chars().collect();
            if p.is_empty() {
                return None;
            }
            let last = p.len() - 1;
            p[last] = if p[last] == 'x' { 'y' } else { 'x' };
            replace_first(bytes, status.as_bytes(), format!(" {} {}\r\n", r.status_code, p.into_iter().collect::<String>()).as_bytes())
        }
        "unknown-version" => replace_first(bytes, b"HTTP/1.1 ", b"HTTP/9.9 "),
        "opening-boundary-removed" => replace_first(bytes, b"\r\n\r\n--String_separator\r\n", b"\r\n\r\n"),
        "part-content-range-removed" => {
            let i = bytes.windows(15).position(|w| w == b"Content-Range: ")?;
            let head_end = bytes.windows(4).position(|w| w == b"\r\n\r\n")?;
            if i < head_end {
                // single-part responses carry it in the head; the statement speaks of multipart structure
                let j = bytes[head_end..].windows(15).position(|w| w == b"Content-Range: ")? + head_end;
                let e = bytes[j..].windows(2).position(|w| w == b"\r\n")? + j + 2;
                let mut v = bytes[..j].to_vec();
                v.extend_from_slice(&bytes[e..]);
                return Some(v);
            }
            let e = bytes[i..].windows(2).position(|w| w == b"\r\n")? + i + 2;
            let mut v = bytes[..i].to_vec();
            v.extend_from_slice(&bytes[e..]);
            Some(v)
        }
        "part-content-range-non-numeric" | "part-content-range-start-after-end" | "part-content-range-end-after-size" => {
            let head_end = bytes.windows(4).position(|w| w == b"\r\n\r\n")?;
            let j = bytes[head_end..].windows(21).position(|w| w == b"Content-Range: bytes ")? + head_end + 21;
            let e = bytes[j..].windows(2).position(|w| w == b"\r\n")? + j;
            let new: &[u8] = match which {
                "part-content-range-non-numeric" => b"a-b/c",
                "part-content-range-start-after-end" => b"9-3/100",
                _ => b"0-200/100",
            };
            let mut v = bytes[..j].to_vec();
            v.extend_from_slice(new);
            v.extend_from_slice(&bytes[e..]);
            Some(v)
        }
        "blank-line-removed" => {
            if r.content_range_list.len() < 2 {
                return None;
            }
            // the blank line between the part headers and the part body
            let head_end = bytes.windows(4).position(|w| w == b"\r\n\r\n")? + 4;
            let j = bytes[head_end..].windows(4).position(|w| w == b"\r\n\r\n")? + head_end;
            let mut v = bytes[..j + 2].to_vec();
            v.extend_from_slice(b"x");
            v.extend_from_slice(&bytes[j + 4..]);
            Some(v)
        }
        "content-length-not-a-number" => {
            let i = bytes.windows(16).position(|w| w == b"Content-Length: ")? + 16;
            let e = bytes[i..].windows(2).position(|w| w == b"\r\n")? + i;
            let mut v = bytes[..i].to_vec();
            v.extend_from_slice(b"a");
            v.extend_from_slice(&bytes[e..]);
            Some(v)
        }
        "closing-boundary-removed" => {
            if r.content_range_list.len() < 2 {
                return None;
            }
            let tail = b"\r\n--String_separator";
            if bytes.ends_with(tail) {
                Some(bytes[..bytes.len() - tail.len()].to_vec())
            } else {
                None
            }
        }
        _ => None,
    }
}

pub fn check(case: &Case) -> (String, bool, Vec<(String, String)>) {
    let r = case.build();
    let pre = format!("C15:{}", case.serialiser);
    let bytes = match serialise(case, &r) {
        Ok(b) => b,
        Err(p) => return ("panic".into(), true, vec![(format!("{}:panic:serialise:{}:{}", pre, crate::props::c04::call_site(&p.location), panic_class(&p.message)), p.message)]),
    };
    if !case.corruption.is_empty() {
        let c = match corrupt(&bytes, &r, &case.corruption) {
            Some(c) => c,
            None => return ("corruption-not-applicable".into(), false, vec![]),
        };
        return match guard(|| Response::parse(&c)) {
            Err(p) => ("panic".into(), true, vec![(format!("C15:corruption:{}:panic:{}:{}", case.corruption, crate::props::c04::call_site(&p.location), panic_class(&p.message)), p.message)]),
            Ok(Ok(parsed)) => ("accepted".into(), true, vec![(format!("C15:corruption:{}:accepted", case.corruption), format!("{:?} parsed as status {} with {} parts", show(&c[..c.len().min(120)]), parsed.status_code, parsed.content_range_list.len()))]),
            Ok(Err(_)) => ("rejected".into(), true, vec![]),
        };
    }
    let parsed = match guard(|| Response::parse(&bytes)) {
        Err(p) => return ("panic".into(), true, vec![(format!("{}:panic:parse:{}:{}", pre, crate::props::c04::call_site(&p.location), panic_class(&p.message)), p.message)]),
        Ok(Err(e)) => return ("rejected".into(), true, vec![(format!("{}:own-serialisation-rejected:{}", pre, if r.content_range_list.len() > 1 { "multipart" } else { "single" }), format!("{} for {:?}", e, show(&bytes[..bytes.len().min(160)])))]),
        Ok(Ok(p)) => p,
    };
    let mut fails = Vec::new();
    if parsed.status_code != r.status_code || parsed.reason_phrase != r.reason_phrase || parsed.http_version != r.http_version {
        fails.push((format!("{}:status-line-differs", pre), format!("{} {:?}", parsed.status_code, parsed.reason_phrase)));
    }
    // headers: the original list, in order, must be a subsequence; the serialiser may add the three framing headers
    let framing = ["content-type", "content-range", "content-length"];
    let got: Vec<(String, String)> = parsed.headers.iter().map(|h| (h.name.clone(), h.value.clone())).filter(|(n, _)| !framing.contains(&n.to_ascii_lowercase().as_str())).collect();
    let want: Vec<(String, String)> = r.headers.iter().map(|h| (h.name.clone(), h.value.clone())).collect();
    if got != want {
        fails.push((format!("{}:headers-differ", pre), format!("got {:?} want {:?}", got, want)));
    }
    if parsed.content_range_list.len() != r.content_range_list.len() {
        fails.push((format!("{}:part-count-differs", pre), format!("{} vs {}", parsed.content_range_list.len(), r.content_range_list.len())));
    } else {
        for (i, (g, w)) in parsed.content_range_list.iter().zip(r.content_range_list.iter()).enumerate() {
            let multi = r.content_range_list.len() > 1;
            let kind = if multi { "multipart" } else { "single" };
            if g.body != w.body {
                let what = if w.body.is_empty() { "empty-body" } else if w.body.ends_with(b"\n") || w.body.ends_with(b"\r") { "body-ending-in-line-break" } else if w.body.starts_with(b"-") { "body-starting-with-dash" } else { "body" };
                fails.push((format!("{}:{}:{}-differs", pre, kind, what), format!("part {}: got {:?} want {:?}", i, show(&g.body), show(&w.body))));
            }
            if g.content_type != w.content_type {
                fails.push((format!("{}:{}:content-type-differs", pre, kind), format!("part {}: got {:?} want {:?}", i, g.content_type, w.content_type)));
            }
            if g.range != w.range || g.size != w.size {
                fails.push((format!("{}:{}:range-differs", pre, kind), format!("part {}: got {:?}/{} want {:?}/{}", i, g.range, g.size, w.range, w.size)));
            }
        }
    }
    (if fails.is_empty() { "equal".into() } else { "differs".into() }, true, fails)
}

pub fn run(ctx: &mut Ctx) {
    let thorough = ctx.tier.thorough();
    let nstatus = Response::status_code_reason_phrase_list().len();
    let mut bodies: Vec<Vec<u8>> = Vec::new();
    enumerate::sequences(BODY_ALPHABET.len(), 3, &mut |idx| bodies.push(enumerate::concat_bytes(BODY_ALPHABET, idx)));
    ctx.bound("statuses", json!(nstatus));
    ctx.bound("header_sets", json!(HEADER_SETS.len()));
    ctx.bound("bodies", json!(format!("every byte string of length <= 3 over {{a,CR,LF,-,FF}} ({})", bodies.len())));
    ctx.bound("parts", json!(if thorough { "1 part; every pair of bodies as 2 parts; 3..6 parts from a 6-body subset" } else { "1 part; 2 parts from (every body x a 6-body subset); 3 parts from the subset" }));
    ctx.bound("corruptions", json!(CORRUPTIONS));
    let mut go = |ctx: &mut Ctx, case: Case| {
        let j = case.to_json();
        if !ctx.begin(j.to_string().as_bytes()) {
            return;
        }
        let (class, nt, fails) = check(&case);
        if nt {
            ctx.nontrivial();
            ctx.sample(|| j.clone());
        }
        ctx.outcome(&format!("{}:{}", if case.corruption.is_empty() { "roundtrip" } else { "corruption" }, class));
        for (sig, detail) in fails {
            ctx.fail(&sig, || j.clone(), detail);
        }
    };
    let subset: Vec<Vec<u8>> = vec![b"".to_vec(), b"a".to_vec(), b"a\r\n".to_vec(), b"\r\n".to_vec(), b"--".to_vec(), b"\xff\n-".to_vec()];
    let hs = |i: usize| -> Vec<(String, String)> { HEADER_SETS[i % HEADER_SETS.len()].iter().map(|(n, v)| (n.to_string(), v.to_string())).collect() };
    for ser in ["associated", "instance"] {
        // every status x header set, one body
        for si in 0..nstatus {
            for h in 0..HEADER_SETS.len() {
                go(ctx, Case { serialiser: ser.into(), status_index: si, headers: hs(h), parts: vec![("text/plain".into(), 0, b"body".to_vec())], corruption: String::new() });
                go(ctx, Case { serialiser: ser.into(), status_index: si, headers: hs(h), parts: vec![("text/plain".into(), 0, b"one".to_vec()), ("image/png".into(), 10, b"two".to_vec())], corruption: String::new() });
            }
        }
        // header values: every string of length <= 2 over {a, space, tab, colon, semicolon} and a few longer shapes
        let mut hvalues: Vec<String> = Vec::new();
        enumerate::sequences(HVALUE_ALPHABET.len(), 2, &mut |idx| hvalues.push(enumerate::concat_strs(HVALUE_ALPHABET, idx)));
        for e in ["a: b", "value ", "value\t", "  ", "a  b", "text/html; charset=utf-8 "] {
            hvalues.push(e.to_string());
        }
        hvalues.sort();
        hvalues.dedup();
        for v in &hvalues {
            for (n1, n2) in [("X-A", "Server"), ("Server", "X-Empty")] {
                let headers = vec![(n1.to_string(), v.clone()), (n2.to_string(), "after".to_string())];
                go(ctx, Case { serialiser: ser.into(), status_index: 4, headers: headers.clone(), parts: vec![("text/plain".into(), 0, b"body".to_vec())], corruption: String::new() });
                go(ctx, Case { serialiser: ser.into(), status_index: 10, headers, parts: vec![("text/plain".into(), 0, b"one".to_vec()), ("image/png".into(), 10, b"two".to_vec())], corruption: String::new() });
            }
        }
        // single bodies
        for b in &bodies {
            for t in TYPES {
                go(ctx, Case { serialiser: ser.into(), status_index: 4, headers: hs(1), parts: vec![(t.to_string(), 0, b.clone())], corruption: String::new() });
            }
        }
        // every content type in each position of 2 and 3 parts
        for t1 in TYPES {
            for t2 in TYPES {
                go(ctx, Case { serialiser: ser.into(), status_index: 10, headers: hs(1), parts: vec![(t1.to_string(), 0, b"one".to_vec()), (t2.to_string(), 5, b"two".to_vec())], corruption: String::new() });
                go(ctx, Case { serialiser: ser.into(), status_index: 10, headers: hs(0), parts: vec![(t2.to_string(), 0, b"a".to_vec()), (t1.to_string(), 5, b"".to_vec()), (t2.to_string(), 9, b"c\r\n".to_vec())], corruption: String::new() });
            }
        }
        // two parts
        for b1 in &bodies {
            let seconds: &Vec<Vec<u8>> = if thorough { &bodies } else { &subset };
            for b2 in seconds {
                go(ctx, Case { serialiser: ser.into(), status_index: 10, headers: hs(1), parts: vec![("text/plain".into(), 0, b1.clone()), ("application/octet-stream".into(), 7, b2.clone())], corruption: String::new() });
                if !thorough {
                    go(ctx, Case { serialiser: ser.into(), status_index: 10, headers: hs(1), parts: vec![("text/plain".into(), 3, b2.clone()), ("application/octet-stream".into(), 7, b1.clone())], corruption: String::new() });
                }
            }
        }
        // 3..k parts from the subset
        let kmax = if thorough { 6 } else { 3 };
        for k in 3..=kmax {
            if k <= 4 {
                enumerate::sequences_exact(subset.len(), k, &mut |idx| {
                    let parts = idx.iter().enumerate().map(|(i, b)| (TYPES[i % TYPES.len()].to_string(), (i * 10) as u64, subset[*b].clone())).collect();
                    go(ctx, Case { serialiser: ser.into(), status_index: 10, headers: hs(0), parts, corruption: String::new() });
                });
            } else {
                for rot in 0..subset.len() {
                    let parts = (0..k).map(|i| (TYPES[i % TYPES.len()].to_string(), (i * 10) as u64, subset[(i + rot) % subset.len()].clone())).collect();
                    go(ctx, Case { serialiser: ser.into(), status_index: 10, headers: hs(0), parts, corruption: String::new() });
                }
            }
        }
        // corruptions of valid serialisations
        for c in CORRUPTIONS {
            for si in [0usize, 4, 10, 26, 41] {
                go(ctx, Case { serialiser: ser.into(), status_index: si, headers: hs(1), parts: vec![("text/plain".into(), 0, b"body".to_vec())], corruption: c.to_string() });
                go(ctx, Case { serialiser: ser.into(), status_index: si, headers: hs(1), parts: vec![("text/plain".into(), 0, b"one".to_vec()), ("image/png".into(), 10, b"two".to_vec())], corruption: c.to_string() });
            }
        }
    }
}

pub fn replay(v: &Value) -> Vec<Failure> {
    let case = Case::from_json(v);
    check(&case).2.into_iter().map(|(signature, detail)| Failure { signature, case: v.clone(), detail, hash: 0 }).collect()
}
