//! C16 - multipart/form-data bodies round-trip part for part.

use crate::body::multipart_form_data::{FormMultipartData, Part};
use crate::engine::{enumerate, guard, hex, panic_class, show, unhex, Ctx, Failure};
use crate::header::Header;
use serde_json::{json, Value};

pub const BODY_ALPHABET: &[&[u8]] = &[b"a", b"b", b"-", b"\r", b"\n"];
pub const BOUNDARIES: &[&str] = &["-", "--", "---", "----------", "b", "ab", "--b", "-b", "b-", "a-b", "----WebKitFormBoundaryX", "'()+_,./:=?", "0123456789012345678901234567890123456789012345678901234567890123456789", "X1", "----x-y-z"];
pub const HEADER_SETS: &[&[(&str, &str)]] = &[&[("Content-Disposition", "form-data; name=\"f\"")], &[("Content-Disposition", "form-data; name=\"g\"; filename=\"g.txt\""), ("Content-Type", "text/plain")],
    // part headers a parser might act on: declared lengths that do not describe the body, an encoding, a nested multipart type
    &[("Content-Disposition", "form-data; name=\"f\""), ("Content-Length", "0")], &[("Content-Disposition", "form-data; name=\"f\""), ("Content-Length", "1")], &[("Content-Disposition", "form-data; name=\"f\""), ("content-length", "8")],
    &[("Content-Disposition", "form-data; name=\"f\""), ("Content-Length", "20")], &[("Content-Disposition", "form-data; name=\"f\""), ("Content-Length", "99999999")], &[("Content-Disposition", "form-data; name=\"f\""), ("Content-Transfer-Encoding", "base64")],
    &[("Content-Disposition", "form-data; name=\"f\""), ("Content-Type", "multipart/mixed; boundary=b")]];

#[derive(Clone, Debug)]
pub struct Case {
    pub framing: String, // "library" | "browser" | "endpoint"
    pub boundary: String,
    pub parts: Vec<(usize, Vec<u8>)>, // (header set index, body)
    pub rejection: String,
}
impl Case {
    pub fn to_json(&self) -> Value {
        json!({"framing": self.framing, "boundary": self.boundary, "parts": self.parts.iter().map(|(h, b)| json!([h, hex(b)])).collect::<Vec<_>>(), "rejection": self.rejection})
    }
    pub fn from_json(v: &Value) -> Case {
        Case {
            framing: v["framing"].as_str().unwrap_or("library").to_string(),
            boundary: v["boundary"].as_str().unwrap_or("b").to_string(),
            parts: v["parts"].as_array().map(|a| a.iter().map(|p| (p[0].as_u64().unwrap_or(0) as usize, unhex(p[1].as_str().unwrap_or("")))).collect()).unwrap_or_default(),
            rejection: v["rejection"].as_str().unwrap_or("").to_string(),
        }
    }
}

fn contains(hay: &[u8], needle: &[u8]) -> bool {
    !needle.is_empty() && hay.len() >= needle.len() && hay.windows(needle.len()).any(|w| w == needle)
}

/// the statement's precondition: the boundary does not occur in the data
pub fn admissible(case: &Case) -> bool {
    case.parts.iter().all(|(_, b)| !contains(b, case.boundary.as_bytes()))
}

/// the dash-insensitive reading of the boundary occurs in some body
pub fn dashless_in_data(case: &Case) -> bool {
    let d = case.boundary.replace('-', "");
    case.parts.iter().any(|(_, b)| contains(b, d.as_bytes()))
}

/// header set index of a part that has no header lines at all (rejection cases only)
pub const NO_HEADERS: usize = 9999;

fn header_list(i: usize) -> Vec<Header> {
    if i == NO_HEADERS {
        return vec![];
    }
    HEADER_SETS[i % HEADER_SETS.len()].iter().map(|(n, v)| Header { name: n.to_string(), value: v.to_string() }).collect()
}

fn browser_body(case: &Case) -> Vec<u8> {
    let mut v = Vec::new();
    for (h, b) in &case.parts {
        v.extend_from_slice(format!("--{}\r\n", case.boundary).as_bytes());
        for hd in header_list(*h) {
            v.extend_from_slice(format!("{}: {}\r\n", hd.name, hd.value).as_bytes());
        }
        v.extend_from_slice(b"\r\n");
        v.extend_from_slice(b);
        v.extend_from_slice(b"\r\n");
    }
    v.extend_from_slice(format!("--{}--\r\n", case.boundary).as_bytes());
    v
}

fn classify_boundary(b: &str) -> &'static str {
    let core = b.trim_matches('-');
    if core.contains('-') {
        "boundary-with-an-interior-hyphen"
    } else {
        "plain-boundary"
    }
}

/// the echo endpoint of the server: one line "name is value \r\n" per part, in order
pub fn check_endpoint(case: &Case) -> (String, bool, Vec<(String, String)>) {
    use crate::drive::{self, Entry};
    let pre = "C16:endpoint";
    let body = browser_body(case);
    let ct = format!("multipart/form-data; boundary={}", case.boundary);
    let req = drive::request_bytes("POST", "/form-multipart-enctype-post-method", "HTTP/1.1", &[("Host", "localhost"), ("Content-Type", &ct)], &body);
    let out = drive::simple(Entry::Process, &req);
    if let Some(p) = &out.panic {
        return ("panic".into(), true, vec![(format!("{}:panic:{}:{}", pre, crate::props::c04::call_site(&p.location), panic_class(&p.message)), p.message.clone())]);
    }
    let (_, got) = crate::oracle::http::split_lenient(&out.raw);
    let status = if out.raw.len() >= 12 { String::from_utf8_lossy(&out.raw[9..12]).to_string() } else { "none".into() };
    let mut want = Vec::new();
    for (h, b) in &case.parts {
        let name = if *h % HEADER_SETS.len() == 0 { "f" } else { "g" };
        want.extend_from_slice(format!("{} is {} \r\n", name, String::from_utf8_lossy(b)).as_bytes());
    }
    if status != "200" || got != want {
        return ("differs".into(), true, vec![(format!("{}:echo-differs:{}", pre, classify_boundary(&case.boundary)), format!("status {} body {:?} want {:?} (boundary {:?})", status, show(&got[..got.len().min(80)]), show(&want), case.boundary))]);
    }
    ("equal".into(), true, vec![])
}

pub fn check(case: &Case) -> (String, bool, Vec<(String, String)>) {
    if case.framing == "endpoint" {
        return check_endpoint(case);
    }
    let pre = format!("C16:{}", case.framing);
    let parts: Vec<Part> = case.parts.iter().map(|(h, b)| Part { headers: header_list(*h), body: b.clone() }).collect();
    let (data, param): (Vec<u8>, String) = if case.framing == "library" {
        match guard(|| FormMultipartData::generate(parts, &case.boundary)) {
            Err(p) => return ("panic".into(), true, vec![(format!("{}:panic:generate:{}:{}", pre, crate::props::c04::call_site(&p.location), panic_class(&p.message)), p.message)]),
            Ok(Err(_)) if case.rejection == "a-part-without-headers" => return ("n/a".into(), false, vec![]),
            Ok(Err(e)) => return ("generate-err".into(), true, vec![(format!("{}:generate-refuses-a-valid-part-list", pre), e)]),
            Ok(Ok(d)) => (d, case.boundary.clone()),
        }
    } else {
        let ct = format!("multipart/form-data; boundary={}", case.boundary);
        let b = match FormMultipartData::extract_boundary(&ct) {
            Ok(b) => b,
            Err(e) => return ("extract-err".into(), true, vec![(format!("{}:boundary-parameter-not-extracted", pre), e)]),
        };
        if b != case.boundary {
            return ("extract-wrong".into(), true, vec![(format!("{}:boundary-parameter-extracted-wrongly", pre), format!("{:?} vs {:?}", b, case.boundary))]);
        }
        (browser_body(case), b)
    };
    let data = match case.rejection.as_str() {
        "" => data,
        "opening-boundary-removed" => {
            let first_line = data.iter().position(|c| *c == b'\n').map(|i| i + 1).unwrap_or(0);
            data[first_line..].to_vec()
        }
        "closing-boundary-removed" => {
            let closing = if case.framing == "library" { case.boundary.clone() } else { format!("--{}--\r\n", case.boundary) };
            if data.ends_with(closing.as_bytes()) {
                data[..data.len() - closing.len()].to_vec()
            } else {
                return ("n/a".into(), false, vec![]);
            }
        }
        "part-without-headers" => {
            // drop the header lines of the first part, keep its blank line
            let first_line = data.iter().position(|c| *c == b'\n').map(|i| i + 1).unwrap_or(0);
            let blank = data[first_line..].windows(4).position(|w| w == b"\r\n\r\n").map(|i| i + first_line + 2).unwrap_or(first_line);
            let mut v = data[..first_line].to_vec();
            v.extend_from_slice(&data[blank..]);
            v
        }
        _ => data,
    };
    let parsed = guard(|| FormMultipartData::parse(&data, param.clone()));
    if !case.rejection.is_empty() {
        if dashless_in_data(case) {
            // the structure tests are about structure: keep the known boundary-matching weakness out of them
            return ("n/a".into(), false, vec![]);
        }
        return match parsed {
            Err(p) => ("panic".into(), true, vec![(format!("C16:rejection:{}:panic:{}:{}", case.rejection, crate::props::c04::call_site(&p.location), panic_class(&p.message)), p.message)]),
            Ok(Ok(ps)) => ("accepted".into(), true, vec![(format!("C16:rejection:{}:{}:accepted", case.framing, case.rejection), format!("{:?} parsed into {} parts", show(&data[..data.len().min(100)]), ps.len()))]),
            Ok(Err(_)) => ("rejected".into(), true, vec![]),
        };
    }
    let bclass = classify_boundary(&case.boundary);
    let got = match parsed {
        Err(p) => return ("panic".into(), true, vec![(format!("{}:panic:parse:{}:{}", pre, crate::props::c04::call_site(&p.location), panic_class(&p.message)), p.message)]),
        Ok(Err(e)) => return ("rejected".into(), true, vec![(format!("{}:own-framing-rejected:{}", pre, if dashless_in_data(case) { "body-contains-the-boundary-without-its-hyphens" } else { bclass }), format!("{} for boundary {:?} data {:?}", e, case.boundary, show(&data[..data.len().min(100)])))]),
        Ok(Ok(ps)) => ps,
    };
    let mut fails = Vec::new();
    if got.len() != case.parts.len() {
        // is it the dash-insensitive false match?
        let dashless = case.boundary.replace('-', "");
        let false_match = case.parts.iter().any(|(_, b)| contains(b, dashless.as_bytes()));
        let why = if false_match { "body-contains-the-boundary-without-its-hyphens" } else { bclass };
        fails.push((format!("{}:part-count-differs:{}", pre, why), format!("{} parts for {}", got.len(), case.parts.len())));
        return ("differs".into(), true, fails);
    }
    for (i, (g, (h, b))) in got.iter().zip(case.parts.iter()).enumerate() {
        let want_h: Vec<(String, String)> = header_list(*h).into_iter().map(|x| (x.name, x.value)).collect();
        let got_h: Vec<(String, String)> = g.headers.iter().map(|x| (x.name.clone(), x.value.clone())).collect();
        if got_h != want_h {
            fails.push((format!("{}:part-headers-differ", pre), format!("part {}: {:?} vs {:?}", i, got_h, want_h)));
        }
        if &g.body != b {
            let dashless = case.boundary.replace('-', "");
            let what = if contains(b, dashless.as_bytes()) {
                "body-contains-the-boundary-without-its-hyphens"
            } else if b.is_empty() {
                "empty-body"
            } else if b.len() <= 2 && (b.ends_with(b"\n")) {
                "short-body-ending-in-LF"
            } else if b.ends_with(b"\n") || b.ends_with(b"\r") {
                "body-ending-in-a-line-break"
            } else {
                "body"
            };
            fails.push((format!("{}:{}-differs", pre, what), format!("part {}: got {:?} want {:?} (boundary {:?})", i, show(&g.body), show(b), case.boundary)));
        }
    }
    (if fails.is_empty() { "equal".into() } else { "differs".into() }, true, fails)
}

pub fn run(ctx: &mut Ctx) {
    let thorough = ctx.tier.thorough();
    let mut bodies: Vec<Vec<u8>> = Vec::new();
    enumerate::sequences(BODY_ALPHABET.len(), if thorough { 4 } else { 3 }, &mut |idx| bodies.push(enumerate::concat_bytes(BODY_ALPHABET, idx)));
    ctx.bound("bodies", json!(format!("every byte string of length <= {} over {{a,b,-,CR,LF}} ({})", if thorough { 4 } else { 3 }, bodies.len())));
    ctx.bound("boundaries", json!(BOUNDARIES));
    ctx.bound("parts", json!(if thorough { "1 part; 2 parts (all pairs of bodies of length <= 3); 3 parts and one list of 8" } else { "1 part; 2 parts (every body x bodies of length <= 1); one list of 3 and one of 8" }));
    ctx.bound("framings", json!(["library generate/parse with the same boundary string", "browser framing (--b delimiters, --b-- close, boundary parameter through extract_boundary)"]));
    let mut go = |ctx: &mut Ctx, case: Case| {
        if !admissible(&case) {
            return;
        }
        let j = case.to_json();
        if !ctx.begin(j.to_string().as_bytes()) {
            return;
        }
        let (class, nt, fails) = check(&case);
        if nt {
            ctx.nontrivial();
            ctx.sample(|| j.clone());
        }
        ctx.outcome(&format!("{}:{}", if case.rejection.is_empty() { "roundtrip" } else { "rejection" }, class));
        for (sig, detail) in fails {
            ctx.fail(&sig, || j.clone(), detail);
        }
    };
    // the server's echo endpoint, for bodies without line breaks (the page is line oriented)
    crate::drive::default_config();
    let text_bodies: Vec<Vec<u8>> = bodies.iter().filter(|b| !b.contains(&b'\r') && !b.contains(&b'\n') && b.len() <= 3).cloned().collect();
    for boundary in BOUNDARIES {
        for b1 in &text_bodies {
            go(ctx, Case { framing: "endpoint".into(), boundary: boundary.to_string(), parts: vec![(0, b1.clone())], rejection: String::new() });
            for b2 in &text_bodies {
                if b2.len() <= 1 {
                    go(ctx, Case { framing: "endpoint".into(), boundary: boundary.to_string(), parts: vec![(0, b1.clone()), (1, b2.clone())], rejection: String::new() });
                }
            }
        }
    }
    let short: Vec<Vec<u8>> = bodies.iter().filter(|b| b.len() <= if thorough { 3 } else { 1 }).cloned().collect();
    for framing in ["library", "browser"] {
        for boundary in BOUNDARIES {
            for hs in 0..HEADER_SETS.len() {
                for b in &bodies {
                    go(ctx, Case { framing: framing.into(), boundary: boundary.to_string(), parts: vec![(hs, b.clone())], rejection: String::new() });
                }
            }
            for b1 in &bodies {
                if b1.len() > 3 {
                    continue;
                }
                for b2 in &short {
                    go(ctx, Case { framing: framing.into(), boundary: boundary.to_string(), parts: vec![(0, b1.clone()), (1, b2.clone())], rejection: String::new() });
                    go(ctx, Case { framing: framing.into(), boundary: boundary.to_string(), parts: vec![(1, b2.clone()), (0, b1.clone())], rejection: String::new() });
                }
            }
            let three: Vec<(usize, Vec<u8>)> = vec![(0, b"a".to_vec()), (1, b"".to_vec()), (0, b"a\r\n".to_vec())];
            go(ctx, Case { framing: framing.into(), boundary: boundary.to_string(), parts: three, rejection: String::new() });
            let eight: Vec<(usize, Vec<u8>)> = (0..8).map(|i| (i % 2, bodies[(i * 7) % bodies.len()].clone())).collect();
            go(ctx, Case { framing: framing.into(), boundary: boundary.to_string(), parts: eight, rejection: String::new() });
            // a part without header lines at every position of lists of 1..4 parts
            for n in 1..=4usize {
                for k in 0..n {
                    for b in [b"a".to_vec(), b"".to_vec()] {
                        let parts: Vec<(usize, Vec<u8>)> = (0..n).map(|i| if i == k { (NO_HEADERS, b.clone()) } else { (i % 2, b"x".to_vec()) }).collect();
                        go(ctx, Case { framing: framing.into(), boundary: boundary.to_string(), parts, rejection: "a-part-without-headers".into() });
                    }
                }
            }
            for rej in ["opening-boundary-removed", "closing-boundary-removed", "part-without-headers"] {
                for b in [b"a".to_vec(), b"".to_vec(), b"a\r\nb".to_vec()] {
                    go(ctx, Case { framing: framing.into(), boundary: boundary.to_string(), parts: vec![(0, b.clone())], rejection: rej.into() });
                    go(ctx, Case { framing: framing.into(), boundary: boundary.to_string(), parts: vec![(0, b.clone()), (1, b"a".to_vec())], rejection: rej.into() });
                }
            }
        }
    }
}

pub fn replay(v: &Value) -> Vec<Failure> {
    crate::drive::default_config();
    let case = Case::from_json(v);
    check(&case).2.into_iter().map(|(signature, detail)| Failure { signature, case: v.clone(), detail, hash: 0 }).collect()
}
