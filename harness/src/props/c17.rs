//! C17 - form and query decoding returns the submitted fields.

use crate::body::form_urlencoded::FormUrlEncoded;
use crate::drive::{self, Entry};
use crate::engine::{enumerate, guard, panic_class, show, Ctx, Failure};
use crate::request::Request;
use crate::url::URL;
use serde_json::{json, Value};
use std::collections::HashMap;

pub const ALPHABET: &[&str] = &["a", " ", "&", "=", "%", "+", "?", "#", "/", "\u{e9}", "\u{1F600}", "%41", "%zz", "0", ";", "\"", "'", "<", "\\", "\\..\\", "/../", "%26", "\u{2003}", "\u{a0}"];
pub const PATHS: &[&str] = &["query", "form-body", "request-target", "echo-get", "echo-post", "echo-post-after-a-longer-request"];

#[derive(Clone, Debug)]
pub struct Case {
    pub path: String,
    pub map: Vec<(String, String)>,
}
impl Case {
    pub fn to_json(&self) -> Value {
        json!({"path": self.path, "map": self.map.iter().map(|(k, v)| json!([k, v])).collect::<Vec<_>>()})
    }
    pub fn from_json(v: &Value) -> Case {
        Case { path: v["path"].as_str().unwrap_or("query").to_string(), map: v["map"].as_array().map(|a| a.iter().map(|p| (p[0].as_str().unwrap_or("").to_string(), p[1].as_str().unwrap_or("").to_string())).collect()).unwrap_or_default() }
    }
    fn hm(&self) -> HashMap<String, String> {
        self.map.iter().cloned().collect()
    }
}

fn class_of(case: &Case) -> String {
    // the first special character involved, in a fixed priority order (for the signature)
    let all: String = case.map.iter().map(|(k, v)| format!("{}{}", k, v)).collect();
    for (c, n) in [("?", "question-mark"), ("#", "hash"), ("%", "percent"), ("+", "plus"), ("&", "ampersand"), ("=", "equals"), (" ", "space"), ("/", "slash"), (";", "semicolon")] {
        if all.contains(c) {
            return n.to_string();
        }
    }
    if !all.is_ascii() {
        return "non-ascii".into();
    }
    "plain".into()
}

fn echo_lines(body: &[u8]) -> Vec<String> {
    let mut v: Vec<String> = String::from_utf8_lossy(body).split("\r\n").filter(|l| !l.is_empty()).map(|s| s.to_string()).collect();
    v.sort();
    v
}

pub fn check(case: &Case) -> (String, bool, Vec<(String, String)>) {
    let want = case.hm();
    let pre = format!("C17:{}", case.path);
    let fail = |what: &str, detail: String| -> (String, bool, Vec<(String, String)>) { ("differs".into(), true, vec![(format!("{}:{}:{}", pre, what, class_of(case)), detail)]) };
    let encoded = match guard(|| URL::build_query(want.clone())) {
        Ok(e) => e,
        Err(p) => return ("panic".into(), true, vec![(format!("{}:panic:build_query:{}:{}", pre, crate::props::c04::call_site(&p.location), panic_class(&p.message)), p.message)]),
    };
    let got: Result<HashMap<String, String>, String> = match case.path.as_str() {
        "query" => guard(|| URL::parse_query(&encoded)).map_err(|p| format!("panic:{}:{}", crate::props::c04::call_site(&p.location), panic_class(&p.message))),
        "form-body" => match guard(|| {
            let body = FormUrlEncoded::generate(want.clone());
            FormUrlEncoded::parse(body.into_bytes())
        }) {
            Ok(Ok(m)) => Ok(m),
            Ok(Err(e)) => return fail("own-encoding-rejected", e),
            Err(p) => Err(format!("panic:{}:{}", crate::props::c04::call_site(&p.location), panic_class(&p.message))),
        },
        "request-target" => {
            let r = Request { method: "GET".into(), request_uri: format!("/form-get-method?{}", encoded), http_version: "HTTP/1.1".into(), headers: vec![], body: vec![] };
            match guard(|| r.get_uri_query()) {
                Ok(Ok(Some(m))) => Ok(m),
                Ok(Ok(None)) => return fail("no-query-found", format!("target {:?}", r.request_uri)),
                Ok(Err(e)) => return fail("target-rejected", e),
                Err(p) => Err(format!("panic:{}:{}", crate::props::c04::call_site(&p.location), panic_class(&p.message))),
            }
        }
        _ => {
            // echo endpoints: compare as multisets of "key is value" lines
            let req = if case.path == "echo-get" {
                drive::request_bytes("GET", &format!("/form-get-method?{}", encoded), "HTTP/1.1", &[("Host", "localhost")], b"")
            } else {
                drive::request_bytes("POST", "/form-url-encoded-enctype-post-method", "HTTP/1.1", &[("Host", "localhost"), ("Content-Type", "application/x-www-form-urlencoded")], encoded.as_bytes())
            };
            if req.len() > 9000 {
                return ("too-long".into(), false, vec![]);
            }
            if case.path == "echo-post-after-a-longer-request" {
                // a longer request served first by the same thread must not leave anything behind
                let long_body = format!("zzfirst=1&zzsecret={}", "s".repeat(3000));
                let first = drive::request_bytes("POST", "/form-url-encoded-enctype-post-method", "HTTP/1.1", &[("Host", "localhost"), ("Content-Type", "application/x-www-form-urlencoded")], long_body.as_bytes());
                let _ = drive::simple(Entry::Process, &first);
            }
            let out = drive::simple(Entry::Process, &req);
            if let Some(p) = &out.panic {
                return ("panic".into(), true, vec![(format!("{}:panic:{}:{}", pre, crate::props::c04::call_site(&p.location), panic_class(&p.message)), p.message.clone())]);
            }
            let (_, body) = crate::oracle::http::split_lenient(&out.raw);
            let status = if out.raw.len() >= 12 { String::from_utf8_lossy(&out.raw[9..12]).to_string() } else { "none".into() };
            let mut want_lines: Vec<String> = want.iter().map(|(k, v)| format!("{} is {}", k, v)).collect();
            want_lines.sort();
            let got_lines = echo_lines(&body);
            if status != "200" || got_lines != want_lines {
                return fail("echo-differs", format!("status {} got {:?} want {:?} (sent {:?})", status, got_lines, want_lines, show(encoded.as_bytes())));
            }
            return ("equal".into(), true, vec![]);
        }
    };
    match got {
        Err(e) => ("panic".into(), true, vec![(format!("{}:{}", pre, e), e)]),
        Ok(m) => {
            if m == want {
                ("equal".into(), true, vec![])
            } else {
                fail("decoded-map-differs", format!("got {:?} want {:?} (encoded {:?})", m, want, encoded))
            }
        }
    }
}

pub fn run(ctx: &mut Ctx) {
    drive::default_config();
    let thorough = ctx.tier.thorough();
    let maxlen = if thorough { 3 } else { 2 };
    let mut strings: Vec<String> = Vec::new();
    enumerate::sequences(ALPHABET.len(), maxlen, &mut |idx| {
        if !idx.is_empty() {
            strings.push(enumerate::concat_strs(ALPHABET, idx));
        }
    });
    strings.sort();
    strings.dedup();
    let short: Vec<String> = strings.iter().filter(|s| ALPHABET.contains(&s.as_str())).cloned().collect();
    ctx.bound("strings", json!(format!("every non-empty string of length <= {} over {:?} ({} strings)", maxlen, ALPHABET, strings.len())));
    ctx.bound("maps", json!(if thorough { "1 entry: key x value over all strings (length <= 2 keys); 2 entries: single-symbol keys x all values; 3 entries and one of 20" } else { "1 entry: every key (length <= 2) x every value; 2 entries: single-symbol keys and values; one map of 3 and one of 20" }));
    ctx.bound("paths", json!(PATHS));
    let two: Vec<String> = strings.iter().filter(|s| s.chars().count() <= 2 || ALPHABET.contains(&s.as_str())).cloned().collect();
    let mut go = |ctx: &mut Ctx, map: Vec<(String, String)>| {
        for path in PATHS {
            let case = Case { path: path.to_string(), map: map.clone() };
            let j = case.to_json();
            if !ctx.begin(j.to_string().as_bytes()) {
                continue;
            }
            let (class, nt, fails) = check(&case);
            if nt {
                ctx.nontrivial();
                ctx.sample(|| j.clone());
            }
            ctx.outcome(&format!("{}:{}", path, class));
            for (sig, detail) in fails {
                ctx.fail(&sig, || j.clone(), detail);
            }
        }
    };
    for k in &two {
        for v in &strings {
            go(ctx, vec![(k.clone(), v.clone())]);
        }
    }
    for k1 in &short {
        for k2 in &short {
            if k1 >= k2 {
                continue;
            }
            let vals: &Vec<String> = if thorough { &two } else { &short };
            for v1 in vals {
                for v2 in &short {
                    go(ctx, vec![(k1.clone(), v1.clone()), (k2.clone(), v2.clone())]);
                }
            }
        }
    }
    go(ctx, vec![("a".into(), "1 2".into()), ("b&".into(), "x=y".into()), ("c".into(), "100%".into())]);
    // long values of multi-byte characters at every byte alignment: whatever fixed byte offset some
    // code cuts or inspects the text at (a log line, a buffer) falls inside a character for one of them
    ctx.bound("long_values", json!("1500 repetitions of a 2-, 3- or 4-byte character after 0..3 ASCII bytes, as value and as key; 8000 ASCII characters"));
    for (ch, w) in [("\u{e9}", 2usize), ("\u{20ac}", 3), ("\u{1F600}", 4)] {
        for shift in 0..w {
            let v = format!("{}{}", "a".repeat(shift), ch.repeat(1500));
            go(ctx, vec![("k".to_string(), v.clone())]);
            go(ctx, vec![(v, "v".to_string())]);
        }
    }
    go(ctx, vec![("k".to_string(), "a".repeat(8000))]);
    let twenty: Vec<(String, String)> = (0..20).map(|i| (format!("k{}{}", i, ALPHABET[i % ALPHABET.len()]), strings[(i * 37) % strings.len()].clone())).collect();
    go(ctx, twenty);
}

pub fn replay(v: &Value) -> Vec<Failure> {
    drive::default_config();
    let case = Case::from_json(v);
    check(&case).2.into_iter().map(|(signature, detail)| Failure { signature, case: v.clone(), detail, hash: 0 }).collect()
}
