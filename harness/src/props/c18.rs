//! C18 - Base64 conforms to RFC 4648 and round-trips.
//! Literal exhaustive enumeration of every input of 0..3 bytes (the encoder's unit),
//! exhaustive small-alphabet composition across group boundaries, a fixed ladder of long
//! inputs, and every single-character corruption by a non-alphabet character.

use crate::core::base64::Base64;
use crate::engine::{guard, hex, panic_class, unhex, Ctx, Failure};
use serde_json::{json, Value};

const ALPHABET: &[u8; 64] = b"ABCDEFGHIJKLMNOPQRSTUVWXYZabcdefghijklmnopqrstuvwxyz0123456789+/";

/// RFC 4648 §4 reference encoder.
pub fn reference_encode(data: &[u8]) -> String {
    let mut out = String::with_capacity((data.len() + 2) / 3 * 4);
    for chunk in data.chunks(3) {
        let b0 = chunk[0] as u32;
        let b1 = *chunk.get(1).unwrap_or(&0) as u32;
        let b2 = *chunk.get(2).unwrap_or(&0) as u32;
        let n = (b0 << 16) | (b1 << 8) | b2;
        out.push(ALPHABET[((n >> 18) & 63) as usize] as char);
        out.push(ALPHABET[((n >> 12) & 63) as usize] as char);
        if chunk.len() > 1 {
            out.push(ALPHABET[((n >> 6) & 63) as usize] as char);
        } else {
            out.push('=');
        }
        if chunk.len() > 2 {
            out.push(ALPHABET[(n & 63) as usize] as char);
        } else {
            out.push('=');
        }
    }
    out
}

fn check_roundtrip(input: &[u8]) -> Option<(String, String)> {
    let r = guard(|| Base64::encode(input));
    let enc = match r {
        Err(p) => return Some((format!("C18:panic:encode:{}:{}", p.location, panic_class(&p.message)), p.message)),
        Ok(Err(e)) => return Some(("C18:encode-returned-error".to_string(), e)),
        Ok(Ok(s)) => s,
    };
    let expected = reference_encode(input);
    if enc != expected {
        return Some(("C18:encode-differs-from-rfc4648".to_string(), format!("got {:?} expected {:?}", enc, expected)));
    }
    let r = guard(|| Base64::decode(enc.clone()));
    match r {
        Err(p) => Some((format!("C18:panic:decode:{}:{}", p.location, panic_class(&p.message)), p.message)),
        Ok(Err(e)) => Some(("C18:decode-rejects-own-encoding".to_string(), e)),
        Ok(Ok(d)) => {
            if d != input {
                Some(("C18:roundtrip-differs".to_string(), format!("decoded {} expected {}", hex(&d), hex(input))))
            } else {
                None
            }
        }
    }
}

fn check_corruption(text: &str, pos: usize, ch: char) -> Option<(String, String)> {
    let mut chars: Vec<char> = text.chars().collect();
    chars[pos] = ch;
    let corrupted: String = chars.into_iter().collect();
    let r = guard(|| Base64::decode(corrupted.clone()));
    match r {
        Err(p) => Some((format!("C18:panic:decode:{}:{}", p.location, panic_class(&p.message)), p.message)),
        Ok(Ok(d)) => Some(("C18:decode-accepts-non-alphabet-character".to_string(), format!("{:?} decoded to {}", corrupted, hex(&d)))),
        Ok(Err(_)) => None,
    }
}

fn check_after_rejection(text: &str, pos: usize, ch: char, then: &[u8]) -> Option<(String, String)> {
    let mut chars: Vec<char> = text.chars().collect();
    chars[pos] = ch;
    let corrupted: String = chars.into_iter().collect();
    let _ = guard(|| Base64::decode(corrupted.clone()));
    check_roundtrip(then).map(|(sig, d)| (format!("{}:after-a-rejected-text", sig), format!("after decode({:?}) was rejected: {}", corrupted, d)))
}

fn check_rejected(text: &str) -> Option<(String, String)> {
    let t = text.to_string();
    match guard(|| Base64::decode(t.clone())) {
        Err(p) => Some((format!("C18:panic:decode:{}:{}", p.location, panic_class(&p.message)), p.message)),
        Ok(Ok(d)) => Some(("C18:decode-accepts-non-alphabet-character".to_string(), format!("{:?} decoded to {}", text, hex(&d)))),
        Ok(Err(_)) => None,
    }
}

fn rt_case(ctx: &mut Ctx, kind: &str, input: &[u8]) {
    let mut key = kind.as_bytes().to_vec();
    key.push(0);
    key.extend_from_slice(input);
    // all round-trip cases share one key space so that duplicates across families are merged
    let mut k2 = b"rt\0".to_vec();
    k2.extend_from_slice(input);
    if !ctx.begin(&k2) {
        return;
    }
    if !input.is_empty() {
        ctx.nontrivial();
    }
    ctx.sample(|| json!({"kind":"roundtrip","family":kind,"input_hex":hex(&input[..input.len().min(32)]),"len":input.len()}));
    ctx.add(&format!("cases_{}", kind), 1);
    match check_roundtrip(input) {
        None => ctx.outcome(&format!("ok:len%3={}", input.len() % 3)),
        Some((sig, detail)) => {
            ctx.outcome("fail");
            ctx.fail(&sig, || json!({"kind":"roundtrip","input_hex":hex(input)}), detail)
        }
    }
}

pub fn non_alphabet_chars() -> Vec<char> {
    let mut v = Vec::new();
    for b in 0u32..=255 {
        let c = char::from_u32(b).unwrap();
        let in_alpha = b < 128 && (ALPHABET.contains(&(b as u8)) || b as u8 == b'=');
        if !in_alpha {
            v.push(c);
        }
    }
    // code points whose `as u8` truncation lands inside the alphabet
    v.push('\u{0141}'); // 0x41 'A'
    v.push('\u{0176}'); // 0x76 'v'
    v.push('\u{013D}'); // 0x3D '='
    v
}

pub const TEXTS: &[&str] = &[
    "f", "fo", "foo", "foob", "fooba", "foobar", "Hello, World!", "\u{0}\u{1}\u{2}", "~~~~~~~~~", "The quick brown fox jumps over the lazy dog",
];

pub fn run(ctx: &mut Ctx) {
    let thorough = ctx.tier.thorough();
    // 1. literally every input of length 0..3
    rt_case(ctx, "len0to3", &[]);
    for a in 0..=255u8 {
        rt_case(ctx, "len0to3", &[a]);
    }
    for a in 0..=255u8 {
        for b in 0..=255u8 {
            rt_case(ctx, "len0to3", &[a, b]);
        }
    }
    // three-byte inputs: all 2^24 (quick may restrict, see bound below)
    let full3 = thorough || std::env::var("RWSV_C18_FULL3").map(|v| v != "0").unwrap_or(true);
    if full3 {
        for a in 0..=255u8 {
            for b in 0..=255u8 {
                for c in 0..=255u8 {
                    rt_case(ctx, "len0to3", &[a, b, c]);
                }
            }
        }
        ctx.bound("len0to3", json!("every byte string of length 0..3 (16 843 009 inputs)"));
    } else {
        let edge: Vec<u8> = vec![0, 1, 2, 3, 0x3E, 0x3F, 0x40, 0x7F, 0x80, 0xFC, 0xFD, 0xFE, 0xFF];
        for a in &edge {
            for b in 0..=255u8 {
                for c in 0..=255u8 {
                    rt_case(ctx, "len0to3", &[*a, b, c]);
                    rt_case(ctx, "len0to3", &[b, *a, c]);
                    rt_case(ctx, "len0to3", &[b, c, *a]);
                }
            }
        }
        ctx.bound("len0to3", json!("every byte string of length 0..2; length 3 with one byte from the 13-element edge set at each position"));
    }
    // 2. composition across groups: every string of length 4..9 over {00, FF, 3E, FB}
    let alpha: [u8; 4] = [0x00, 0xFF, 0x3E, 0xFB];
    let maxlen = if thorough { 10 } else { 9 };
    for len in 4..=maxlen {
        crate::engine::enumerate::sequences_exact(4, len, &mut |idx| {
            let v: Vec<u8> = idx.iter().map(|i| alpha[*i]).collect();
            rt_case(ctx, "compose", &v);
        });
    }
    ctx.bound("compose", json!(format!("every string of length 4..{} over {{00,FF,3E,FB}}", maxlen)));
    // 3. ladder of long inputs: 3*2^k + r, r in 0..3 (decode is quadratic: keep the top modest)
    let top = if thorough { 14 } else { 9 };
    for k in 0..=top {
        for r in 0..3usize {
            let len = 3 * (1usize << k) + r;
            let v = crate::tree::coded(len, k as u32 * 3 + r as u32);
            rt_case(ctx, "ladder", &v);
        }
    }
    ctx.bound("ladder", json!(format!("lengths 3*2^k+r, k=0..{}, r=0..2, position-coded content (max {} bytes)", top, 3 * (1usize << top) + 2)));
    // 3b. the encoder alone (it is linear) on inputs around and beyond 64 KiB, against the reference
    for len in [49_152usize, 65_535, 65_536, 65_537, 65_538, 65_539, 98_304, 131_071, 131_072, 131_073, 196_609, 300_000] {
        let v = crate::tree::coded(len, len as u32);
        let mut k = b"enc\0".to_vec();
        k.extend_from_slice(&(len as u64).to_le_bytes());
        if !ctx.begin(&k) {
            continue;
        }
        ctx.nontrivial();
        ctx.add("cases_encode_only", 1);
        let case = json!({"kind":"encode-only","len":len});
        match guard(|| Base64::encode(&v)) {
            Err(p) => ctx.fail(&format!("C18:panic:encode:{}:{}", p.location, panic_class(&p.message)), || case.clone(), p.message),
            Ok(Err(e)) => ctx.fail("C18:encode-returned-error", || case.clone(), e),
            Ok(Ok(s)) => {
                let want = reference_encode(&v);
                if s != want {
                    let at = s.bytes().zip(want.bytes()).position(|(a, b)| a != b).unwrap_or(s.len().min(want.len()));
                    ctx.outcome("fail");
                    ctx.fail("C18:encode-differs-from-rfc4648", || case.clone(), format!("{} bytes: first difference at character {} (lengths {} vs {})", len, at, s.len(), want.len()));
                } else {
                    ctx.outcome("ok:encode-only");
                }
            }
        }
    }
    ctx.bound("encode_only", json!("lengths 48 KiB .. 300 000 around 64 KiB and 128 KiB, position-coded content, compared with the reference encoder"));
    // 4b. a character outside the alphabet appended to, inserted into or left over after valid text
    //     (text lengths that are not a multiple of 4)
    for t in TEXTS {
        let enc = reference_encode(t.as_bytes());
        let chars: Vec<char> = enc.chars().collect();
        for ch in &non_alphabet_chars() {
            for at in [0usize, 1, chars.len() / 2, chars.len().saturating_sub(1), chars.len()] {
                let mut c2 = chars.clone();
                c2.insert(at.min(c2.len()), *ch);
                let text: String = c2.into_iter().collect();
                let key = format!("insert\0{}", text);
                if !ctx.begin(key.as_bytes()) {
                    continue;
                }
                ctx.nontrivial();
                ctx.add("cases_insert", 1);
                let case = json!({"kind":"text","text":text});
                match check_rejected(&text) {
                    None => ctx.outcome("insertion-rejected"),
                    Some((sig, detail)) => {
                        ctx.outcome("fail");
                        ctx.fail(&sig, || case.clone(), detail)
                    }
                }
            }
        }
    }
    for ch in &non_alphabet_chars() {
        for text in [ch.to_string(), format!("{}{}", ch, ch), format!("Z{}", ch), format!("Zg{}", ch), format!("Zg={}", ch)] {
            let key = format!("insert\0{}", text);
            if !ctx.begin(key.as_bytes()) {
                continue;
            }
            ctx.nontrivial();
            let case = json!({"kind":"text","text":text});
            if let Some((sig, detail)) = check_rejected(&text) {
                ctx.fail(&sig, || case.clone(), detail)
            }
        }
    }
    ctx.bound("insert", json!("every non-alphabet character inserted at the start, after 1 character, in the middle, before the last character and at the end of every text; and alone / after 1..3 valid characters"));
    // 4. decoder: every single-character corruption by every non-alphabet character
    let bad = non_alphabet_chars();
    for t in TEXTS {
        let enc = reference_encode(t.as_bytes());
        let n = enc.chars().count();
        for pos in 0..n {
            for ch in &bad {
                let key = format!("corrupt\0{}\0{}\0{}", enc, pos, *ch as u32);
                if !ctx.begin(key.as_bytes()) {
                    continue;
                }
                ctx.nontrivial();
                ctx.add("cases_corrupt", 1);
                ctx.sample(|| json!({"kind":"corrupt","text":enc,"pos":pos,"char":*ch as u32}));
                match check_corruption(&enc, pos, *ch) {
                    None => ctx.outcome("corruption-rejected"),
                    Some((sig, detail)) => {
                        ctx.outcome("fail");
                        ctx.fail(&sig, || json!({"kind":"corrupt","text":enc,"pos":pos,"char":*ch as u32}), detail)
                    }
                }
            }
        }
    }
    // 5. a rejected text, then a valid one, decoded by the same thread: a rejection may leave
    //    nothing behind (every corruption position of every text x 4 characters, then every text)
    let after: [char; 4] = ['*', ' ', '\n', '\u{0141}'];
    for t in TEXTS {
        let enc = reference_encode(t.as_bytes());
        let n = enc.chars().count();
        for pos in 0..n {
            for ch in after {
                for (vi, v) in TEXTS.iter().enumerate() {
                    let key = format!("after-rejection\0{}\0{}\0{}\0{}", enc, pos, ch as u32, vi);
                    if !ctx.begin(key.as_bytes()) {
                        continue;
                    }
                    ctx.nontrivial();
                    ctx.add("cases_after_rejection", 1);
                    let case = json!({"kind":"after-rejection","text":enc,"pos":pos,"char":ch as u32,"then":vi});
                    match check_after_rejection(&enc, pos, ch, v.as_bytes()) {
                        None => ctx.outcome("ok-after-rejection"),
                        Some((sig, detail)) => {
                            ctx.outcome("fail");
                            ctx.fail(&sig, || case.clone(), detail)
                        }
                    }
                }
            }
        }
    }
    ctx.bound("after_rejection", json!("every text x every position x {*, space, LF, U+0141} rejected first, then each of the texts round-tripped on the same thread"));
    ctx.bound("corrupt", json!(format!("{} texts x every position x {} non-alphabet characters (all 191 non-alphabet bytes as U+00xx, plus U+0141/U+0176/U+013D)", TEXTS.len(), bad.len())));
}

pub fn replay(case: &Value) -> Vec<Failure> {
    let mut out = Vec::new();
    let r = match case["kind"].as_str() {
        Some("roundtrip") => check_roundtrip(&unhex(case["input_hex"].as_str().unwrap_or(""))),
        Some("corrupt") => check_corruption(
            case["text"].as_str().unwrap_or(""),
            case["pos"].as_u64().unwrap_or(0) as usize,
            char::from_u32(case["char"].as_u64().unwrap_or(0) as u32).unwrap_or('?'),
        ),
        Some("text") => check_rejected(case["text"].as_str().unwrap_or("")),
        Some("encode-only") => {
            let len = case["len"].as_u64().unwrap_or(0) as usize;
            let v = crate::tree::coded(len, len as u32);
            match guard(|| Base64::encode(&v)) {
                Ok(Ok(s)) if s == reference_encode(&v) => None,
                Ok(Ok(_)) => Some(("C18:encode-differs-from-rfc4648".to_string(), format!("{} bytes", len))),
                Ok(Err(e)) => Some(("C18:encode-returned-error".to_string(), e)),
                Err(p) => Some((format!("C18:panic:encode:{}:{}", p.location, panic_class(&p.message)), p.message)),
            }
        }
        Some("after-rejection") => check_after_rejection(
            case["text"].as_str().unwrap_or(""),
            case["pos"].as_u64().unwrap_or(0) as usize,
            char::from_u32(case["char"].as_u64().unwrap_or(0) as u32).unwrap_or('?'),
            TEXTS[(case["then"].as_u64().unwrap_or(0) as usize) % TEXTS.len()].as_bytes(),
        ),
        _ => Some(("C18:bad-replay-file".to_string(), "unknown kind".to_string())),
    };
    if let Some((signature, detail)) = r {
        out.push(Failure { signature, case: case.clone(), detail, hash: 0 });
    }
    out
}
