//! C19 - JSON serialisation round-trips and is valid JSON.
//! Harness structs implement New / ToJSON / FromJSON exactly as the documented example
//! does; a base object and every object differing from it in at most one field (two in
//! thorough), each deviating field ranging over its whole alphabet.

use crate::core::New;
use crate::engine::{enumerate, guard, panic_class, Ctx, Failure};
use crate::json::array::boolean::JSONArrayOfBooleans;
use crate::json::array::float::JSONArrayOfFloats;
use crate::json::array::integer::JSONArrayOfIntegers;
use crate::json::array::object::JSONArrayOfObjects;
use crate::json::array::string::JSONArrayOfStrings;
use crate::json::object::{FromJSON, ToJSON, JSON};
use crate::json::property::{JSONProperty, JSONValue};
use crate::json::JSON_TYPE;
use serde_json::{json, Value};

#[derive(Clone, Debug, PartialEq)]
pub struct VNode {
    pub name: String,
    pub num: i128,
    pub child: Option<Box<VNode>>,
}
impl New for VNode {
    fn new() -> Self {
        VNode { name: String::new(), num: 0, child: None }
    }
}
impl FromJSON for VNode {
    fn parse_json_to_properties(&self, json_string: String) -> Result<Vec<(JSONProperty, JSONValue)>, String> {
        JSON::parse_as_properties(json_string)
    }
    fn set_properties(&mut self, properties: Vec<(JSONProperty, JSONValue)>) -> Result<(), String> {
        for (property, value) in properties {
            if property.property_name == "name" {
                if value.string.is_some() {
                    self.name = value.string.unwrap();
                }
            } else if property.property_name == "num" {
                if value.i128.is_some() {
                    self.num = value.i128.unwrap();
                }
            } else if property.property_name == "child" {
                if value.object.is_some() {
                    let mut c = VNode::new();
                    c.parse(value.object.unwrap())?;
                    self.child = Some(Box::new(c));
                }
            }
        }
        Ok(())
    }
    fn parse(&mut self, json_string: String) -> Result<(), String> {
        let p = self.parse_json_to_properties(json_string)?;
        self.set_properties(p)
    }
}
impl ToJSON for VNode {
    fn list_properties() -> Vec<JSONProperty> {
        vec![
            JSONProperty { property_name: "name".into(), property_type: JSON_TYPE.string.into() },
            JSONProperty { property_name: "num".into(), property_type: JSON_TYPE.integer.into() },
            JSONProperty { property_name: "child".into(), property_type: JSON_TYPE.object.into() },
        ]
    }
    fn get_property(&self, property_name: String) -> JSONValue {
        let mut v = JSONValue::new();
        match property_name.as_str() {
            "name" => v.string = Some(self.name.clone()),
            "num" => v.i128 = Some(self.num),
            "child" => {
                if let Some(c) = &self.child {
                    v.object = Some(c.to_json_string());
                }
            }
            _ => {}
        }
        v
    }
    fn to_json_string(&self) -> String {
        let mut data = vec![];
        for p in VNode::list_properties() {
            let v = self.get_property(p.property_name.to_string());
            data.push((p, v));
        }
        JSON::to_json_string(data)
    }
}

/// four optional properties: every subset of them present (an absent first, middle or last one)
#[derive(Clone, Debug, PartialEq)]
pub struct VOpts {
    pub a: Option<String>,
    pub b: Option<i128>,
    pub c: Option<bool>,
    pub d: Option<String>,
}
impl New for VOpts {
    fn new() -> Self {
        VOpts { a: None, b: None, c: None, d: None }
    }
}
impl FromJSON for VOpts {
    fn parse_json_to_properties(&self, json_string: String) -> Result<Vec<(JSONProperty, JSONValue)>, String> {
        JSON::parse_as_properties(json_string)
    }
    fn set_properties(&mut self, properties: Vec<(JSONProperty, JSONValue)>) -> Result<(), String> {
        for (property, value) in properties {
            match property.property_name.as_str() {
                "a" => self.a = value.string,
                "b" => self.b = value.i128,
                "c" => self.c = value.bool,
                "d" => self.d = value.string,
                _ => {}
            }
        }
        Ok(())
    }
    fn parse(&mut self, json_string: String) -> Result<(), String> {
        let p = self.parse_json_to_properties(json_string)?;
        self.set_properties(p)
    }
}
impl ToJSON for VOpts {
    fn list_properties() -> Vec<JSONProperty> {
        vec![
            JSONProperty { property_name: "a".into(), property_type: JSON_TYPE.string.into() },
            JSONProperty { property_name: "b".into(), property_type: JSON_TYPE.integer.into() },
            JSONProperty { property_name: "c".into(), property_type: JSON_TYPE.boolean.into() },
            JSONProperty { property_name: "d".into(), property_type: JSON_TYPE.string.into() },
        ]
    }
    fn get_property(&self, property_name: String) -> JSONValue {
        let mut v = JSONValue::new();
        match property_name.as_str() {
            "a" => v.string = self.a.clone(),
            "b" => v.i128 = self.b,
            "c" => v.bool = self.c,
            "d" => v.string = self.d.clone(),
            _ => {}
        }
        v
    }
    fn to_json_string(&self) -> String {
        let mut data = vec![];
        for p in VOpts::list_properties() {
            let v = self.get_property(p.property_name.to_string());
            data.push((p, v));
        }
        JSON::to_json_string(data)
    }
}

pub fn check_opts(mask: usize) -> (String, Vec<(String, String)>) {
    let o = VOpts {
        a: if mask & 1 != 0 { Some("first".into()) } else { None },
        b: if mask & 2 != 0 { Some(-7) } else { None },
        c: if mask & 4 != 0 { Some(true) } else { None },
        d: if mask & 8 != 0 { Some("last".into()) } else { None },
    };
    let text = match crate::engine::guard(|| o.to_json_string()) {
        Ok(t) => t,
        Err(p) => return ("panic".into(), vec![(format!("C19:panic:to_json:{}", crate::engine::panic_class(&p.message)), p.message)]),
    };
    let mut fails = Vec::new();
    let which = ["a", "b", "c", "d"].iter().enumerate().filter(|(i, _)| mask & (1 << i) == 0).map(|(_, n)| *n).collect::<Vec<_>>().join("+");
    let absent = if which.is_empty() { "none".to_string() } else { which };
    match serde_json::from_str::<Value>(&text) {
        Err(e) => fails.push((format!("C19:not-valid-json:optional-properties-absent:{}", if mask & 1 == 0 { "first" } else if mask & 8 == 0 { "last" } else { "middle" }), format!("{} for {:?} (absent: {})", e, text, absent))),
        Ok(v) => {
            let n = v.as_object().map(|m| m.len()).unwrap_or(usize::MAX);
            if n != (mask as u32).count_ones() as usize {
                fails.push(("C19:json-means-something-else:optional-properties".to_string(), format!("{} members for {:?}", n, text)));
            }
        }
    }
    let mut back = VOpts::new();
    match crate::engine::guard(|| back.parse(text.clone())) {
        Err(p) => fails.push((format!("C19:panic:parse:{}", crate::engine::panic_class(&p.message)), p.message)),
        Ok(Err(e)) => fails.push(("C19:own-text-rejected:optional-properties".to_string(), format!("{} for {:?} (absent: {})", e, text, absent))),
        Ok(Ok(())) => {
            if back != o {
                fails.push(("C19:roundtrip-differs:optional-properties".to_string(), format!("{:?} vs {:?}", back, o)));
            }
        }
    }
    (if fails.is_empty() { "opts:equal".into() } else { "opts:differs".into() }, fails)
}

#[derive(Clone, Debug)]
pub struct VObj {
    pub s: String,
    pub b: bool,
    pub i: i128,
    pub f: f64,
    pub opt: Option<String>,
    pub nested: Option<VNode>,
    pub ints: Option<Vec<i128>>,
    pub floats: Option<Vec<f64>>,
    pub strs: Option<Vec<String>>,
    pub bools: Option<Vec<bool>>,
    pub objs: Option<Vec<VNode>>,
}
impl PartialEq for VObj {
    fn eq(&self, o: &Self) -> bool {
        let fb = |v: &Option<Vec<f64>>| v.as_ref().map(|x| x.iter().map(|y| y.to_bits()).collect::<Vec<_>>());
        self.s == o.s && self.b == o.b && self.i == o.i && self.f.to_bits() == o.f.to_bits() && self.opt == o.opt && self.nested == o.nested && self.ints == o.ints && fb(&self.floats) == fb(&o.floats) && self.strs == o.strs && self.bools == o.bools && self.objs == o.objs
    }
}
impl New for VObj {
    fn new() -> Self {
        VObj { s: String::new(), b: false, i: 0, f: 0.0, opt: None, nested: None, ints: None, floats: None, strs: None, bools: None, objs: None }
    }
}
impl FromJSON for VObj {
    fn parse_json_to_properties(&self, json_string: String) -> Result<Vec<(JSONProperty, JSONValue)>, String> {
        JSON::parse_as_properties(json_string)
    }
    fn set_properties(&mut self, properties: Vec<(JSONProperty, JSONValue)>) -> Result<(), String> {
        for (property, value) in properties {
            match property.property_name.as_str() {
                "s" => {
                    if value.string.is_some() {
                        self.s = value.string.unwrap();
                    }
                }
                "b" => {
                    if value.bool.is_some() {
                        self.b = value.bool.unwrap();
                    }
                }
                "i" => {
                    if value.i128.is_some() {
                        self.i = value.i128.unwrap();
                    }
                }
                "f" => {
                    if value.f64.is_some() {
                        self.f = value.f64.unwrap();
                    }
                }
                "opt" => {
                    if value.string.is_some() {
                        self.opt = Some(value.string.unwrap());
                    } else {
                        self.opt = None;
                    }
                }
                "nested" => {
                    if value.object.is_some() {
                        let mut n = VNode::new();
                        n.parse(value.object.unwrap())?;
                        self.nested = Some(n);
                    } else {
                        self.nested = None;
                    }
                }
                "ints" => {
                    if value.array.is_some() {
                        self.ints = Some(JSONArrayOfIntegers::parse_as_list_i128(value.array.unwrap())?);
                    }
                }
                "floats" => {
                    if value.array.is_some() {
                        self.floats = Some(JSONArrayOfFloats::parse_as_list_f64(value.array.unwrap())?);
                    }
                }
                "strs" => {
                    if value.array.is_some() {
                        self.strs = Some(JSONArrayOfStrings::parse_as_list_string(value.array.unwrap())?);
                    }
                }
                "bools" => {
                    if value.array.is_some() {
                        self.bools = Some(JSONArrayOfBooleans::parse_as_list_bool(value.array.unwrap())?);
                    }
                }
                "objs" => {
                    if value.array.is_some() {
                        self.objs = Some(JSONArrayOfObjects::<VNode>::from_json(value.array.unwrap())?);
                    }
                }
                _ => {}
            }
        }
        Ok(())
    }
    fn parse(&mut self, json_string: String) -> Result<(), String> {
        let p = self.parse_json_to_properties(json_string)?;
        self.set_properties(p)
    }
}
impl ToJSON for VObj {
    fn list_properties() -> Vec<JSONProperty> {
        let t = |n: &str, ty: &str| JSONProperty { property_name: n.into(), property_type: ty.into() };
        vec![t("s", JSON_TYPE.string), t("b", JSON_TYPE.boolean), t("i", JSON_TYPE.integer), t("f", JSON_TYPE.number), t("opt", JSON_TYPE.string), t("nested", JSON_TYPE.object), t("ints", JSON_TYPE.array), t("floats", JSON_TYPE.array), t("strs", JSON_TYPE.array), t("bools", JSON_TYPE.array), t("objs", JSON_TYPE.array)]
    }
    fn get_property(&self, property_name: String) -> JSONValue {
        let mut v = JSONValue::new();
        match property_name.as_str() {
            "s" => v.string = Some(self.s.clone()),
            "b" => v.bool = Some(self.b),
            "i" => v.i128 = Some(self.i),
            "f" => v.f64 = Some(self.f),
            "opt" => v.string = self.opt.clone(),
            "nested" => v.object = self.nested.as_ref().map(|n| n.to_json_string()),
            "ints" => v.array = self.ints.as_ref().and_then(|x| JSONArrayOfIntegers::to_json_from_list_i128(x).ok()),
            "floats" => v.array = self.floats.as_ref().and_then(|x| JSONArrayOfFloats::to_json_from_list_f64(x).ok()),
            "strs" => v.array = self.strs.as_ref().and_then(|x| JSONArrayOfStrings::to_json_from_list_string(x).ok()),
            "bools" => v.array = self.bools.as_ref().and_then(|x| JSONArrayOfBooleans::to_json_from_list_bool(x).ok()),
            "objs" => v.array = self.objs.as_ref().and_then(|x| JSONArrayOfObjects::<VNode>::to_json(x).ok()),
            _ => {}
        }
        v
    }
    fn to_json_string(&self) -> String {
        let mut data = vec![];
        for p in VObj::list_properties() {
            let v = self.get_property(p.property_name.to_string());
            data.push((p, v));
        }
        JSON::to_json_string(data)
    }
}

// ---------------------------------------------------------------------------------------
// field alphabets, described as JSON so that a case is its own replay file

pub fn ints() -> Vec<i128> {
    vec![0, 1, -1, 9, -9, 10, -10, 255, i64::MAX as i128, i64::MIN as i128, u64::MAX as i128, i128::MAX, i128::MIN, 1234567890123456789012345678]
}
pub fn floats() -> Vec<f64> {
    // both signs x {zero, ordinary, needing 17 digits, tiny, huge, subnormal, the extremes}
    vec![
        0.0, 1.0, -1.0, 0.5, -0.5, 0.1 + 0.2, 1e21, 1e-7, f64::MAX, f64::MIN_POSITIVE, 123456789.123456789, -2.5e-3, 100.0, 1.5e300,
        -(0.1 + 0.2), -1e21, -1e22, 1e22, -1e-7, -2.5e-9, 1e-6, -1e-6, 9.999e-7, -9.999e-7, 5e-324, -5e-324, -f64::MAX, -f64::MIN_POSITIVE, -1.5e300, -123456789.123456789,
    ]
}
pub const STR_ALPHABET: &[&str] = &["a", " ", ",", ":", "{", "}", "[", "]", "\u{e9}", "n", "t", "\u{20ac}", "\u{1F642}"];
pub fn strings(maxlen: usize) -> Vec<String> {
    let mut v = Vec::new();
    enumerate::sequences(STR_ALPHABET.len(), maxlen, &mut |idx| v.push(enumerate::concat_strs(STR_ALPHABET, idx)));
    v.push("null".into());
    v.push("true".into());
    v.push("12".into());
    v.push("-".into());
    v.push("some text, with: punctuation".into());
    v
}
fn node(depth: usize) -> Option<VNode> {
    if depth == 0 {
        return None;
    }
    // the strings inside nested objects carry structural and 2-, 3-, 4-byte characters too
    let suffix = ["", " ,:{}[]", "\u{e9}", "\u{20ac}", "\u{1F642}"][depth % 5];
    let mut n = VNode { name: format!("d{}{}", depth, suffix), num: depth as i128 * 7, child: None };
    n.child = node(depth - 1).map(Box::new);
    Some(n)
}

/// a deviation: field name + index into that field's alphabet
pub fn field_alphabet_len(field: &str, thorough: bool) -> usize {
    match field {
        "s" | "opt" => strings(2).len() + 1,
        "b" => 2,
        "i" => ints().len(),
        "f" => floats().len(),
        "nested" => if thorough { 5 } else { 3 },
        "ints" => ints().len() + 4,
        "floats" => floats().len() + 4,
        "strs" => strings(1).len() + 4,
        "bools" => 6,
        "objs" => 5,
        _ => 0,
    }
}
pub const FIELDS: &[&str] = &["s", "b", "i", "f", "opt", "nested", "ints", "floats", "strs", "bools", "objs"];

fn list_shape<T: Clone>(k: usize, alphabet: &[T]) -> Option<Vec<T>> {
    // k < len: one-element list [alphabet[k]]; then: empty, 2 elements, 3 elements, 64 elements
    let n = alphabet.len();
    if k < n {
        return Some(vec![alphabet[k].clone()]);
    }
    match k - n {
        0 => Some(vec![]),
        1 => Some(vec![alphabet[0].clone(), alphabet[n - 1].clone()]),
        2 => Some(vec![alphabet[1 % n].clone(), alphabet[2 % n].clone(), alphabet[0].clone()]),
        _ => Some((0..64).map(|i| alphabet[i % n].clone()).collect()),
    }
}

pub fn base() -> VObj {
    VObj { s: "text".into(), b: true, i: 7, f: 2.5, opt: None, nested: None, ints: None, floats: None, strs: None, bools: None, objs: None }
}

pub fn apply(o: &mut VObj, field: &str, k: usize) {
    match field {
        "s" => {
            let a = strings(2);
            o.s = if k < a.len() { a[k].clone() } else { "x".repeat(300) };
        }
        "opt" => {
            let a = strings(2);
            o.opt = Some(if k < a.len() { a[k].clone() } else { "x".repeat(300) });
        }
        "b" => o.b = k == 1,
        "i" => o.i = ints()[k],
        "f" => o.f = floats()[k],
        "nested" => o.nested = node(k + 1),
        "ints" => o.ints = list_shape(k, &ints()),
        "floats" => o.floats = list_shape(k, &floats()),
        "strs" => o.strs = list_shape(k, &strings(1)),
        "bools" => {
            o.bools = Some(match k {
                0 => vec![true],
                1 => vec![false],
                2 => vec![],
                3 => vec![true, false],
                4 => vec![false, false, true],
                _ => (0..64).map(|i| i % 3 == 0).collect(),
            })
        }
        "objs" => {
            o.objs = Some(match k {
                0 => vec![],
                1 => vec![node(1).unwrap()],
                2 => vec![node(1).unwrap(), node(2).unwrap()],
                3 => vec![node(2).unwrap(), node(1).unwrap(), node(3).unwrap()],
                _ => (0..8).map(|i| node(1 + i % 2).unwrap()).collect(),
            })
        }
        _ => {}
    }
}

pub fn build(devs: &[(String, usize)]) -> VObj {
    let mut o = base();
    for (f, k) in devs {
        apply(&mut o, f, *k);
    }
    o
}

// expected value tree (independent of the library's writer)
fn node_tree(n: &VNode) -> Value {
    let mut m = serde_json::Map::new();
    m.insert("name".into(), Value::String(n.name.clone()));
    m.insert("num".into(), num_i(n.num));
    if let Some(c) = &n.child {
        m.insert("child".into(), node_tree(c));
    }
    Value::Object(m)
}
fn num_i(i: i128) -> Value {
    serde_json::from_str(&i.to_string()).unwrap()
}
fn f_equal(v: &Value, f: f64) -> bool {
    // the text denotes the same real number as the f64 (up to f64 rounding)
    v.is_number() && v.to_string().parse::<f64>().map(|g| g.to_bits() == f.to_bits() || (g == 0.0 && f == 0.0)).unwrap_or(false)
}

pub fn tree_matches(o: &VObj, v: &Value) -> Result<(), String> {
    let m = v.as_object().ok_or("top level is not an object")?;
    let get = |k: &str| m.get(k);
    if get("s") != Some(&Value::String(o.s.clone())) {
        return Err(format!("field s: {:?}", get("s")));
    }
    if get("b") != Some(&Value::Bool(o.b)) {
        return Err(format!("field b: {:?}", get("b")));
    }
    if get("i").map(|x| x.to_string()) != Some(o.i.to_string()) {
        return Err(format!("field i: {:?} expected {}", get("i"), o.i));
    }
    if !get("f").map(|x| f_equal(x, o.f)).unwrap_or(false) {
        return Err(format!("field f: {:?} expected {:?}", get("f"), o.f));
    }
    match (&o.opt, get("opt")) {
        (None, None) | (None, Some(Value::Null)) => {}
        (Some(s), Some(Value::String(t))) if s == t => {}
        (a, b) => return Err(format!("field opt: {:?} expected {:?}", b, a)),
    }
    match (&o.nested, get("nested")) {
        (None, None) | (None, Some(Value::Null)) => {}
        (Some(n), Some(t)) if &node_tree(n) == t => {}
        (a, b) => return Err(format!("field nested: {:?} expected {:?}", b, a)),
    }
    if let Some(x) = &o.ints {
        let want: Vec<String> = x.iter().map(|i| i.to_string()).collect();
        let got: Option<Vec<String>> = get("ints").and_then(|a| a.as_array()).map(|a| a.iter().map(|e| e.to_string()).collect());
        if got.as_ref() != Some(&want) {
            return Err(format!("field ints: {:?}", get("ints")));
        }
    }
    if let Some(x) = &o.floats {
        let ok = get("floats").and_then(|a| a.as_array()).map(|a| a.len() == x.len() && a.iter().zip(x.iter()).all(|(e, f)| f_equal(e, *f))).unwrap_or(false);
        if !ok {
            return Err(format!("field floats: {:?}", get("floats")));
        }
    }
    if let Some(x) = &o.strs {
        let want = Value::Array(x.iter().map(|s| Value::String(s.clone())).collect());
        if get("strs") != Some(&want) {
            return Err(format!("field strs: {:?}", get("strs")));
        }
    }
    if let Some(x) = &o.bools {
        let want = Value::Array(x.iter().map(|b| Value::Bool(*b)).collect());
        if get("bools") != Some(&want) {
            return Err(format!("field bools: {:?}", get("bools")));
        }
    }
    if let Some(x) = &o.objs {
        let want = Value::Array(x.iter().map(node_tree).collect());
        if get("objs") != Some(&want) {
            return Err(format!("field objs: {:?}", get("objs")));
        }
    }
    Ok(())
}

fn dev_class(devs: &[(String, usize)], o: &VObj) -> String {
    // a stable, readable class of what deviates (for signatures)
    let mut parts = Vec::new();
    for (f, _) in devs {
        let c = match f.as_str() {
            "i" => if o.i < 0 { "negative-integer" } else { "integer" }.to_string(),
            "f" => {
                if o.f.fract() == 0.0 && o.f.abs() < 1e300 && o.f != 0.0 {
                    "float-with-integral-value".to_string()
                } else if o.f < 0.0 {
                    "negative-float".to_string()
                } else if o.f != 0.0 && o.f.abs() < 1e-5 {
                    "tiny-float".to_string()
                } else {
                    "float".to_string()
                }
            }
            "s" | "opt" => {
                let s = if f == "s" { o.s.clone() } else { o.opt.clone().unwrap_or_default() };
                let special: Vec<&str> = [",", ":", "{", "}", "[", "]"].iter().filter(|c| s.contains(**c)).cloned().collect();
                if !special.is_empty() {
                    format!("string-containing-{}", special[0].replace(',', "comma").replace(':', "colon").replace('{', "brace").replace('}', "brace").replace('[', "bracket").replace(']', "bracket"))
                } else if s.is_empty() {
                    "empty-string".into()
                } else if !s.is_ascii() {
                    "non-ascii-string".into()
                } else if s.trim() != s {
                    "string-with-outer-space".into()
                } else {
                    "string".into()
                }
            }
            "ints" => if o.ints.as_ref().map(|v| v.iter().any(|x| *x < 0)).unwrap_or(false) { "int-array-with-negative" } else if o.ints.as_ref().map(|v| v.is_empty()).unwrap_or(false) { "empty-int-array" } else { "int-array" }.to_string(),
            "floats" => if o.floats.as_ref().map(|v| v.is_empty()).unwrap_or(false) { "empty-float-array" } else { "float-array" }.to_string(),
            "strs" => {
                let v = o.strs.clone().unwrap_or_default();
                if v.is_empty() { "empty-string-array".into() } else if v.iter().any(|s| !s.is_ascii()) { "string-array-non-ascii".into() } else if v.iter().any(|s| s.is_empty()) { "string-array-with-empty-string".into() } else if v.iter().any(|s| [",", "[", "]", "{", "}", ":"].iter().any(|c| s.contains(c))) { "string-array-with-delimiter-character".into() } else { "string-array".to_string() }
            }
            "bools" => if o.bools.as_ref().map(|v| v.is_empty()).unwrap_or(false) { "empty-bool-array" } else { "bool-array" }.to_string(),
            "objs" => if o.objs.as_ref().map(|v| v.is_empty()).unwrap_or(false) { "empty-object-array".to_string() } else { "object-array".to_string() },
            "nested" => "nested-object".to_string(),
            other => other.to_string(),
        };
        parts.push(c);
    }
    if parts.is_empty() {
        "base".into()
    } else {
        parts.join("+")
    }
}

pub fn check(devs: &[(String, usize)]) -> (String, Vec<(String, String)>) {
    let (class, fails) = check_raw(devs);
    if fails.is_empty() || devs.len() < 2 {
        return (class, fails);
    }
    // blame the smallest failing subset: a pair only gets its own signature when neither
    // of its deviations fails alone
    let kind = |sig: &str| sig.split(':').take(2).collect::<Vec<_>>().join(":");
    let mut out = Vec::new();
    for (sig, detail) in fails {
        let mut blamed = None;
        for d in devs {
            let (_, single) = check_raw(std::slice::from_ref(d));
            if let Some((s1, _)) = single.iter().find(|(s1, _)| kind(s1) == kind(&sig)) {
                blamed = Some(s1.clone());
                break;
            }
        }
        out.push((blamed.unwrap_or(sig), detail));
    }
    (class, out)
}

pub fn check_raw(devs: &[(String, usize)]) -> (String, Vec<(String, String)>) {
    let o = build(devs);
    let class = dev_class(devs, &o);
    let text = match guard(|| o.to_json_string()) {
        Ok(t) => t,
        Err(p) => return ("panic".into(), vec![(format!("C19:panic:to_json:{}:{}", crate::props::c04::call_site(&p.location), panic_class(&p.message)), p.message)]),
    };
    let mut fails = Vec::new();
    // (1) accepted by an independent parser with the same meaning
    match serde_json::from_str::<Value>(&text) {
        Err(e) => fails.push((format!("C19:not-valid-json:{}", class), format!("{} in {:?}", e, text.chars().take(200).collect::<String>()))),
        Ok(v) => {
            if let Err(e) = tree_matches(&o, &v) {
                fails.push((format!("C19:json-means-something-else:{}", class), format!("{} in {:?}", e, text.chars().take(200).collect::<String>())));
            }
        }
    }
    // (2) round trip through the library
    let mut back = VObj::new();
    match guard(|| back.parse(text.clone())) {
        Err(p) => fails.push((format!("C19:panic:parse:{}:{}", crate::props::c04::call_site(&p.location), panic_class(&p.message)), format!("{} for {:?}", p.message, text.chars().take(200).collect::<String>()))),
        Ok(Err(e)) => fails.push((format!("C19:own-text-rejected:{}", class), format!("{} for {:?}", e, text.chars().take(200).collect::<String>()))),
        Ok(Ok(())) => {
            if back != o {
                fails.push((format!("C19:roundtrip-differs:{}", class), format!("got {:?} want {:?} via {:?}", back, o, text.chars().take(200).collect::<String>())));
            }
        }
    }
    (if fails.is_empty() { "equal".into() } else { "differs".into() }, fails)
}

/// typed array readers/writers on their own (narrow and unsigned element types)
pub fn check_typed(kind: &str, k: usize) -> (String, Vec<(String, String)>) {
    macro_rules! rt {
        ($vals:expr, $to:path, $from:path) => {{
            let vals = $vals;
            let r = guard(|| {
                let t = $to(&vals)?;
                let back = $from(t.clone())?;
                Ok::<_, String>((t, back))
            });
            match r {
                Err(p) => vec![(format!("C19:typed:{}:panic:{}:{}", kind, crate::props::c04::call_site(&p.location), panic_class(&p.message)), p.message)],
                Ok(Err(e)) => vec![(format!("C19:typed:{}:own-text-rejected", kind), e)],
                Ok(Ok((t, back))) => {
                    let mut f = Vec::new();
                    if serde_json::from_str::<Value>(&t).is_err() {
                        f.push((format!("C19:typed:{}:not-valid-json", kind), t.clone()));
                    }
                    if back != vals {
                        f.push((format!("C19:typed:{}:roundtrip-differs", kind), format!("{:?} vs {:?} via {}", back, vals, t)));
                    }
                    f
                }
            }
        }};
    }
    fn shape<T: Clone>(k: usize, a: Vec<T>) -> Vec<T> {
        list_shape(k, &a).unwrap_or_default()
    }
    let fails = match kind {
        "i64" => rt!(shape(k, vec![0i64, -1, 1, i64::MAX, i64::MIN]), JSONArrayOfIntegers::to_json_from_list_i64, JSONArrayOfIntegers::parse_as_list_i64),
        "i32" => rt!(shape(k, vec![0i32, -1, 1, i32::MAX, i32::MIN]), JSONArrayOfIntegers::to_json_from_list_i32, JSONArrayOfIntegers::parse_as_list_i32),
        "i16" => rt!(shape(k, vec![0i16, -1, 1, i16::MAX, i16::MIN]), JSONArrayOfIntegers::to_json_from_list_i16, JSONArrayOfIntegers::parse_as_list_i16),
        "i8" => rt!(shape(k, vec![0i8, -1, 1, i8::MAX, i8::MIN]), JSONArrayOfIntegers::to_json_from_list_i8, JSONArrayOfIntegers::parse_as_list_i8),
        "u128" => rt!(shape(k, vec![0u128, 1, 9, u64::MAX as u128, u128::MAX]), JSONArrayOfIntegers::to_json_from_list_u128, JSONArrayOfIntegers::parse_as_list_u128),
        "u64" => rt!(shape(k, vec![0u64, 1, 9, u32::MAX as u64, u64::MAX]), JSONArrayOfIntegers::to_json_from_list_u64, JSONArrayOfIntegers::parse_as_list_u64),
        "u32" => rt!(shape(k, vec![0u32, 1, 9, 65536, u32::MAX]), JSONArrayOfIntegers::to_json_from_list_u32, JSONArrayOfIntegers::parse_as_list_u32),
        "u16" => rt!(shape(k, vec![0u16, 1, 9, 256, u16::MAX]), JSONArrayOfIntegers::to_json_from_list_u16, JSONArrayOfIntegers::parse_as_list_u16),
        "u8" => rt!(shape(k, vec![0u8, 1, 9, 128, u8::MAX]), JSONArrayOfIntegers::to_json_from_list_u8, JSONArrayOfIntegers::parse_as_list_u8),
        "f32" => {
            let vals: Vec<f32> = shape(k, vec![0.0f32, 1.5, -1.5, 0.1, f32::MAX]);
            let r = guard(|| {
                let t = JSONArrayOfFloats::to_json_from_list_f32(&vals)?;
                let back = JSONArrayOfFloats::parse_as_list_f32(t.clone())?;
                Ok::<_, String>((t, back))
            });
            match r {
                Err(p) => vec![(format!("C19:typed:f32:panic:{}:{}", crate::props::c04::call_site(&p.location), panic_class(&p.message)), p.message)],
                Ok(Err(e)) => vec![("C19:typed:f32:own-text-rejected".to_string(), e)],
                Ok(Ok((t, back))) => {
                    if back.iter().map(|x| x.to_bits()).collect::<Vec<_>>() != vals.iter().map(|x| x.to_bits()).collect::<Vec<_>>() {
                        vec![("C19:typed:f32:roundtrip-differs".to_string(), format!("{:?} vs {:?} via {}", back, vals, t))]
                    } else {
                        vec![]
                    }
                }
            }
        }
        _ => vec![],
    };
    (if fails.is_empty() { "equal".into() } else { "differs".into() }, fails)
}

pub const TYPED: &[&str] = &["i64", "i32", "i16", "i8", "u128", "u64", "u32", "u16", "u8", "f32"];

pub fn run(ctx: &mut Ctx) {
    let thorough = ctx.tier.thorough();
    ctx.bound("fields", json!(FIELDS));
    ctx.bound("alphabets", json!({"integers": ints().iter().map(|i| i.to_string()).collect::<Vec<_>>(), "floats": floats().iter().map(|f| format!("{:e}", f)).collect::<Vec<_>>(), "strings": format!("every string of length <= 2 over {:?} plus 5 shaped ones and one of 300 characters", STR_ALPHABET), "nesting_depth": if thorough { "1..5" } else { "1..3" }, "array_lengths": "0, 1, 2, 3, 64 (8 for objects)"}));
    ctx.bound("deviations", json!(if thorough { "base object, every single deviating field, every pair of deviating fields" } else { "base object and every single deviating field; pairs of (i, f, s) with every other field" }));
    let mut go = |ctx: &mut Ctx, devs: Vec<(String, usize)>| {
        let j = json!({"kind":"object","devs": devs.iter().map(|(f, k)| json!([f, k])).collect::<Vec<_>>()});
        if !ctx.begin(j.to_string().as_bytes()) {
            return;
        }
        ctx.nontrivial();
        ctx.sample(|| j.clone());
        let (class, fails) = check(&devs);
        ctx.outcome(&class);
        for (sig, detail) in fails {
            ctx.fail(&sig, || j.clone(), detail);
        }
    };
    go(ctx, vec![]);
    for f in FIELDS {
        for k in 0..field_alphabet_len(f, thorough) {
            go(ctx, vec![(f.to_string(), k)]);
        }
    }
    for (a, f1) in FIELDS.iter().enumerate() {
        for f2 in FIELDS.iter().skip(a + 1) {
            if !thorough && !["i", "f", "b"].contains(f1) {
                continue;
            }
            for k1 in 0..field_alphabet_len(f1, thorough) {
                for k2 in 0..field_alphabet_len(f2, thorough) {
                    go(ctx, vec![(f1.to_string(), k1), (f2.to_string(), k2)]);
                }
            }
        }
    }
    for mask in 0..16usize {
        let j = json!({"kind":"optional-properties","mask":mask});
        if !ctx.begin(j.to_string().as_bytes()) {
            continue;
        }
        ctx.nontrivial();
        let (class, fails) = check_opts(mask);
        ctx.outcome(&class);
        for (sig, detail) in fails {
            ctx.fail(&sig, || j.clone(), detail);
        }
    }
    for kind in TYPED {
        for k in 0..9 {
            let j = json!({"kind":"typed","type":kind,"shape":k});
            if !ctx.begin(j.to_string().as_bytes()) {
                continue;
            }
            ctx.nontrivial();
            let (class, fails) = check_typed(kind, k);
            ctx.outcome(&format!("typed:{}", class));
            for (sig, detail) in fails {
                ctx.fail(&sig, || j.clone(), detail);
            }
        }
    }
}

pub fn replay(v: &Value) -> Vec<Failure> {
    let fails = if v["kind"].as_str() == Some("optional-properties") {
        check_opts(v["mask"].as_u64().unwrap_or(0) as usize).1
    } else if v["kind"].as_str() == Some("typed") {
        check_typed(v["type"].as_str().unwrap_or(""), v["shape"].as_u64().unwrap_or(0) as usize).1
    } else {
        let devs: Vec<(String, usize)> = v["devs"].as_array().map(|a| a.iter().map(|d| (d[0].as_str().unwrap_or("").to_string(), d[1].as_u64().unwrap_or(0) as usize)).collect()).unwrap_or_default();
        check(&devs).1
    };
    fails.into_iter().map(|(signature, detail)| Failure { signature, case: v.clone(), detail, hash: 0 }).collect()
}
