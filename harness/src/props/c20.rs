//! C20 - library parsers report errors instead of panicking.
//! Per parsing entry point: every string of length <= 3 (4 in thorough) over that format's
//! delimiter alphabet, every single mutation of valid seed documents (truncation at each
//! offset, each byte replaced by each hostile byte, deletion, duplication), deep nesting,
//! long lines. A panic is caught with its call site; a dead or stalled worker is
//! attributed to the case through the journal and replayed in a fresh process.

use crate::body::multipart_form_data::FormMultipartData;
use crate::core::base64::Base64;
use crate::core::New;
use crate::engine::{enumerate, guard, hex, panic_class, unhex, Ctx, Failure};
use crate::header::content_disposition::ContentDisposition;
use crate::header::Header;
use crate::json::array::boolean::JSONArrayOfBooleans;
use crate::json::array::float::JSONArrayOfFloats;
use crate::json::array::integer::JSONArrayOfIntegers;
use crate::json::array::null::JSONArrayOfNulls;
use crate::json::array::object::JSONArrayOfObjects;
use crate::json::array::string::JSONArrayOfStrings;
use crate::json::array::RawUnprocessedJSONArray;
use crate::json::object::{FromJSON, JSON};
use crate::json::property::JSONProperty;
use crate::props::c19::{VNode, VObj};
use crate::range::Range;
use crate::request::Request;
use crate::response::Response;
use crate::url::path::UrlPath;
use serde_json::{json, Value};
use std::io::Cursor;

fn s(b: &[u8]) -> String {
    String::from_utf8_lossy(b).to_string()
}

pub struct Target {
    pub name: &'static str,
    pub alphabet: &'static [&'static [u8]],
    pub seeds: &'static [&'static [u8]],
    pub nest: Option<(&'static [u8], &'static [u8], &'static [u8])>, // open, core, close
    pub call: fn(&[u8]),
}

const JSON_ALPHA: &[&[u8]] = &[b"{", b"}", b"[", b"]", b"\"", b":", b",", b" ", b"-", b"1", b"a", b"n", b"t", b"\\", b"\0", b"\xc3\xa9", b"\xff", b"\r\n"];
const HTTP_ALPHA: &[&[u8]] = &[b"GET", b" ", b"/", b"HTTP/1.1", b"\r\n", b"\n", b":", b": ", b"a", b"-", b"1", b"\0", b"\x80", b"\xff", b"Content-Length", b"bytes"];
const MP_ALPHA: &[&[u8]] = &[b"--", b"-", b"b", b"\r\n", b"\n", b":", b": ", b"a", b"Content-Disposition", b"form-data", b";", b"=", b"\"", b"\0", b"\x80", b"\xff"];
const RANGE_ALPHA: &[&[u8]] = &[b"bytes", b"=", b"-", b",", b" ", b"/", b"0", b"1", b"9", b"18446744073709551616", b"a", b"*", b"\0", b"\xc3\xa9", b"\xff"];
const B64_ALPHA: &[&[u8]] = &[b"A", b"Z", b"a", b"0", b"+", b"/", b"=", b"-", b"_", b" ", b"\n", b"\0", b"\xc3\xa9", b"\xc5\x81", b"\xff"];
const CFG_ALPHA: &[&[u8]] = &[b"ip", b"port", b"=", b"[", b"]", b"cors", b"#", b"\"", b"'", b" ", b"\n", b"1", b"a", b"_", b"-", b"\0", b"\xff"];
const PATH_ALPHA: &[&[u8]] = &[b"/", b"[[", b"]]", b"[", b"]", b"a", b"b", b"?", b"#", b"=", b"&", b" ", b"\0", b"\xc3\xa9", b"\xff"];
const QUERY_ALPHA: &[&[u8]] = &[b"%", b"a", b"2", b"5", b"6", b"&", b"=", b"+", b"?", b"#", b" ", b"\xc3\xa9", b"\xe2\x82\xac", b"\xf0\x9f\x98\x80", b"\0", b"\xff"];
const QUERY_SEEDS: &[&[u8]] = &[b"key%26%3D%21%40=%25val%2Aue%25&key=value", b"a=1&b=%20x&c", b"name=50%25&q=%E2%82%AC"];
const HDR_ALPHA: &[&[u8]] = &[b"a", b":", b": ", b" ", b";", b"=", b"\"", b"form-data", b"name", b"filename", b"attachment", b"\r\n", b"\0", b"\xc3\xa9", b"\xff"];

const JSON_OBJ_SEEDS: &[&[u8]] = &[
    b"{\r\n  \"s\": \"text\",\r\n  \"b\": true,\r\n  \"i\": -7,\r\n  \"f\": 2.5,\r\n  \"opt\": null,\r\n  \"nested\": {\r\n  \"name\": \"d1\",\r\n  \"num\": 7\r\n},\r\n  \"ints\": [1,-2,3],\r\n  \"strs\": [\"a\",\"b\"]\r\n}",
    b"{\"s\": \"x\", \"objs\": [{\"name\": \"n\", \"num\": 1},\r\n{\"name\": \"m\", \"num\": 2}], \"floats\": [0.5,1e3], \"bools\": [true,false]}",
    b"{}",
];
const JSON_ARR_SEEDS: &[&[u8]] = &[b"[1,-2,3]", b"[\"a\", \"b\"]", b"[true,false,null]", b"[0.5, 1e3, -2.5]", b"[{\"name\": \"n\", \"num\": 1},\r\n{\"name\": \"m\", \"num\": 2}]", b"[[1,2],[3]]", b"[]"];
const REQ_SEEDS: &[&[u8]] = &[b"GET /a?b=c HTTP/1.1\r\nHost: localhost\r\nContent-Length: 3\r\nRange: bytes=0-1\r\n\r\nabc", b"POST / HTTP/1.0\r\n\r\n"];
const RESP_SEEDS: &[&[u8]] = &[
    b"HTTP/1.1 200 OK\r\nHost: localhost\r\nContent-Type: text/plain\r\nContent-Range: bytes 0-3/4\r\nContent-Length: 4\r\n\r\nbody",
    b"HTTP/1.1 206 Partial Content\r\nContent-Type: multipart/byteranges; boundary=String_separator\r\n\r\n--String_separator\r\nContent-Type: text/plain\r\nContent-Range: bytes 0-2/100\r\n\r\none\r\n--String_separator\r\nContent-Type: image/png\r\nContent-Range: bytes 10-12/100\r\n\r\ntwo\r\n--String_separator",
];
const MP_SEEDS: &[&[u8]] = &[b"--b\nContent-Disposition: form-data; name=\"f\"\n\n\n--b--\n", b"--b\nContent-Disposition: form-data; name=\"f\"\n\nv\n--b\nContent-Disposition: form-data; name=\"g\"\n\n\n--b--\n", b"--b\r\nContent-Disposition: form-data; name=\"f\"\r\n\r\n\r\n--b--\r\n", b"--b\r\nContent-Disposition: form-data; name=\"f\"\r\n\r\nvalue\r\n--b\r\nContent-Disposition: form-data; name=\"g\"; filename=\"g.txt\"\r\nContent-Type: text/plain\r\n\r\nsecond\r\n--b--\r\n"];
const RANGE_SEEDS: &[&[u8]] = &[b"bytes=0-1, 4-5, -2, 7-", b"bytes=0-"];
const CR_SEEDS: &[&[u8]] = &[b"bytes 0-3/4", b"bytes 10-12/100"];
const B64_SEEDS: &[&[u8]] = &[b"Zm9vYmFy", b"Zm9vYg==", b"Zm8="];
const CFG_SEEDS: &[&[u8]] = &[b"ip = \"127.0.0.1\"\nport = 7878 # comment\nthread_count = 2\n\n[cors]\nallow_all = false\nallow_origins = [\"https://a\", \"https://b\"]\nmax_age = '600'\n"];
const PATTERN_SEEDS: &[&[u8]] = &[b"/users/[[id]]/posts/[[post]]", b"/static/[[file]]"];
const HDR_SEEDS: &[&[u8]] = &[b"Content-Disposition: form-data; name=\"f\"; filename=\"g.txt\"\r\n", b"Host: localhost:80\r\n"];
const CD_SEEDS: &[&[u8]] = &[b"form-data; name=\"f\"; filename=\"g.txt\"", b"attachment; filename=\"x\"", b"inline"];

fn reset_config_env() {
    for (k, _) in std::env::vars() {
        if k.starts_with("RWS_CONFIG_") {
            std::env::remove_var(k);
        }
    }
}

pub fn targets() -> Vec<Target> {
    vec![
        Target { name: "JSON::parse_as_properties", alphabet: JSON_ALPHA, seeds: JSON_OBJ_SEEDS, nest: Some((b"{\"a\": ", b"1", b"}")), call: |b| { let _ = JSON::parse_as_properties(s(b)); } },
        Target { name: "FromJSON::parse(struct)", alphabet: JSON_ALPHA, seeds: JSON_OBJ_SEEDS, nest: Some((b"{\"nested\": ", b"{\"name\": \"x\"}", b"}")), call: |b| { let mut o = VObj::new(); let _ = o.parse(s(b)); } },
        Target { name: "RawUnprocessedJSONArray::split_into_vector_of_strings", alphabet: JSON_ALPHA, seeds: JSON_ARR_SEEDS, nest: Some((b"[", b"1", b"]")), call: |b| { let _ = RawUnprocessedJSONArray::split_into_vector_of_strings(s(b)); } },
        Target { name: "JSONArrayOfIntegers::parse_as_list_i128", alphabet: JSON_ALPHA, seeds: JSON_ARR_SEEDS, nest: None, call: |b| { let _ = JSONArrayOfIntegers::parse_as_list_i128(s(b)); } },
        Target { name: "JSONArrayOfIntegers::parse_as_list_u8", alphabet: JSON_ALPHA, seeds: JSON_ARR_SEEDS, nest: None, call: |b| { let _ = JSONArrayOfIntegers::parse_as_list_u8(s(b)); } },
        Target { name: "JSONArrayOfFloats::parse_as_list_f64", alphabet: JSON_ALPHA, seeds: JSON_ARR_SEEDS, nest: None, call: |b| { let _ = JSONArrayOfFloats::parse_as_list_f64(s(b)); } },
        Target { name: "JSONArrayOfStrings::parse_as_list_string", alphabet: JSON_ALPHA, seeds: JSON_ARR_SEEDS, nest: None, call: |b| { let _ = JSONArrayOfStrings::parse_as_list_string(s(b)); } },
        Target { name: "JSONArrayOfBooleans::parse_as_list_bool", alphabet: JSON_ALPHA, seeds: JSON_ARR_SEEDS, nest: None, call: |b| { let _ = JSONArrayOfBooleans::parse_as_list_bool(s(b)); } },
        Target { name: "JSONArrayOfNulls::parse_as_list_null", alphabet: JSON_ALPHA, seeds: JSON_ARR_SEEDS, nest: None, call: |b| { let _ = JSONArrayOfNulls::parse_as_list_null(s(b)); } },
        Target { name: "JSONArrayOfObjects::from_json", alphabet: JSON_ALPHA, seeds: JSON_ARR_SEEDS, nest: None, call: |b| { let _ = JSONArrayOfObjects::<VNode>::from_json(s(b)); } },
        Target { name: "JSONProperty::parse", alphabet: JSON_ALPHA, seeds: &[b"\"key\": \"value\"", b"\"n\": -1.5e3", b"\"a\": [1,2]", b"\"o\": {\"x\": 1}", b"\"z\": null"], nest: None, call: |b| { let _ = JSONProperty::parse(&s(b)); } },
        Target { name: "Base64::decode", alphabet: B64_ALPHA, seeds: B64_SEEDS, nest: None, call: |b| { let _ = Base64::decode(s(b)); } },
        Target { name: "FormMultipartData::parse(boundary b)", alphabet: MP_ALPHA, seeds: MP_SEEDS, nest: None, call: |b| { let _ = FormMultipartData::parse(b, "b".to_string()); } },
        Target { name: "FormMultipartData::parse(boundary from the data)", alphabet: MP_ALPHA, seeds: &[b"--", b"---", b"", b"-", b"b-", b"a-b", b"\xc3\xa9"], nest: None, call: |b| { let _ = FormMultipartData::parse(MP_SEEDS[3], s(b)); let _ = FormMultipartData::parse(b, s(b)); } },
        Target { name: "FormMultipartData::extract_boundary", alphabet: HDR_ALPHA, seeds: &[b"multipart/form-data; boundary=----WebKitFormBoundaryX"], nest: None, call: |b| { if let Ok(bd) = FormMultipartData::extract_boundary(&s(b)) { let _ = FormMultipartData::parse(MP_SEEDS[3], bd); } } },
        Target { name: "URL::parse_query", alphabet: QUERY_ALPHA, seeds: QUERY_SEEDS, nest: None, call: |b| { let _ = crate::url::URL::parse_query(&s(b)); let _ = crate::url::URL::percent_decode(&s(b)); } },
        Target { name: "FormUrlEncoded::parse", alphabet: QUERY_ALPHA, seeds: QUERY_SEEDS, nest: None, call: |b| { let _ = crate::body::form_urlencoded::FormUrlEncoded::parse(b.to_vec()); } },
        Target { name: "Request::get_uri_query", alphabet: QUERY_ALPHA, seeds: QUERY_SEEDS, nest: None, call: |b| { let r = Request { method: "GET".into(), request_uri: format!("/p?{}", s(b)), http_version: "HTTP/1.1".into(), headers: vec![], body: vec![] }; let _ = r.get_uri_query(); let _ = r.get_uri_path(); } },
        Target { name: "Request::parse", alphabet: HTTP_ALPHA, seeds: REQ_SEEDS, nest: None, call: |b| { let _ = Request::parse(b); } },
        Target { name: "Response::parse", alphabet: HTTP_ALPHA, seeds: RESP_SEEDS, nest: None, call: |b| { let _ = Response::parse(b); } },
        Target { name: "Header::parse_header", alphabet: HDR_ALPHA, seeds: HDR_SEEDS, nest: None, call: |b| { let _ = Header::parse_header(&s(b)); } },
        Target { name: "Request::parse_http_request_header_string", alphabet: HDR_ALPHA, seeds: HDR_SEEDS, nest: None, call: |b| { let _ = Request::parse_http_request_header_string(&s(b)); } },
        Target { name: "Response::parse_http_response_header_string", alphabet: HDR_ALPHA, seeds: HDR_SEEDS, nest: None, call: |b| { let _ = Response::parse_http_response_header_string(&s(b)); } },
        Target { name: "ContentDisposition::parse", alphabet: HDR_ALPHA, seeds: CD_SEEDS, nest: None, call: |b| { let _ = ContentDisposition::parse(&s(b)); } },
        Target { name: "Range::parse_range_in_content_range", alphabet: RANGE_ALPHA, seeds: &[b"0-1", b"-2", b"7-"], nest: None, call: |b| { for l in [0u64, 10, u64::MAX] { let _ = Range::parse_range_in_content_range(l, &s(b)); } } },
        Target { name: "Range::parse_content_range", alphabet: RANGE_ALPHA, seeds: RANGE_SEEDS, nest: None, call: |b| { let _ = Range::parse_content_range("c20-ten.txt", 10, &s(b)); } },
        Target { name: "Range::get_content_range_list", alphabet: RANGE_ALPHA, seeds: RANGE_SEEDS, nest: None, call: |b| { let h = Header { name: "Range".into(), value: s(b) }; let _ = Range::get_content_range_list("/c20-ten.txt", &h); } },
        Target { name: "Range::_parse_content_range_header_value", alphabet: RANGE_ALPHA, seeds: CR_SEEDS, nest: None, call: |b| { let _ = Range::_parse_content_range_header_value(s(b)); } },
        Target { name: "Range::parse_multipart_body", alphabet: HTTP_ALPHA, seeds: &[b"--String_separator\r\nContent-Type: text/plain\r\nContent-Range: bytes 0-2/100\r\n\r\none\r\n--String_separator\r\nContent-Type: image/png\r\nContent-Range: bytes 10-12/100\r\n\r\ntwo\r\n--String_separator"], nest: None, call: |b| { let mut c = Cursor::new(b); let _ = Range::parse_multipart_body(&mut c, vec![]); } },
        Target { name: "read_config_file", alphabet: CFG_ALPHA, seeds: CFG_SEEDS, nest: None, call: |b| { let _ = crate::entry_point::config_file::read_config_file(Cursor::new(b), String::new()); reset_config_env(); } },
        Target { name: "UrlPath::extract_parts_from_pattern", alphabet: PATH_ALPHA, seeds: PATTERN_SEEDS, nest: Some((b"[[", b"a", b"]]")), call: |b| { let _ = UrlPath::extract_parts_from_pattern(&s(b)); } },
        Target { name: "UrlPath::is_matching(path, seed pattern)", alphabet: PATH_ALPHA, seeds: &[b"/users/1/posts/2", b"/static/a.txt"], nest: None, call: |b| { for p in PATTERN_SEEDS { let _ = UrlPath::is_matching(&s(b), &s(p)); let _ = UrlPath::extract(&s(b), &s(p)); } } },
        Target { name: "UrlPath::is_matching(seed path, pattern)", alphabet: PATH_ALPHA, seeds: PATTERN_SEEDS, nest: None, call: |b| { let _ = UrlPath::is_matching("/users/1/posts/2", &s(b)); let _ = UrlPath::extract("/users/1/posts/2", &s(b)); let _ = UrlPath::build(std::collections::HashMap::from([("id".to_string(), "1".to_string())]), &s(b)); } },
    ]
}

/// (entry point, prefix, repeated unit, suffix): k copies of the unit for k = 2^i
pub const REPEATS: &[(&str, &[u8], &[u8], &[u8])] = &[
    ("Response::parse", b"HTTP/1.1 200 OK\r\n", b"X-H: v\r\n", b"\r\nbody"),
    ("Response::parse", b"HTTP/1.1 206 Partial Content\r\nContent-Type: multipart/byteranges; boundary=String_separator\r\n\r\n", b"--String_separator\r\nContent-Type: text/plain\r\nContent-Range: bytes 0-0/100\r\n\r\nx\r\n", b"--String_separator"),
    ("Range::parse_multipart_body", b"", b"--String_separator\r\nContent-Type: text/plain\r\nContent-Range: bytes 0-0/100\r\n\r\nx\r\n", b"--String_separator"),
    ("Request::parse", b"GET / HTTP/1.1\r\n", b"a: b\r\n", b"\r\n"),
    ("Response::parse", b"", b"HTTP/1.1 100 Continue\r\n\r\n", b"HTTP/1.1 200 OK\r\nContent-Length: 4\r\n\r\nbody"),
    ("Response::parse", b"", b"HTTP/1.1 103 Early Hints\r\nLink: </s.css>\r\n\r\n", b"HTTP/1.1 200 OK\r\n\r\n"),
    ("Request::parse", b"", b"GET / HTTP/1.1\r\n\r\n", b""),
    ("URL::parse_query", b"", b"a=%25&", b"z=1"),
    ("FormMultipartData::parse(boundary b)", b"b\n", b"a: b\n\nv\nb\n", b""),
    ("RawUnprocessedJSONArray::split_into_vector_of_strings", b"[", b"1,", b"1]"),
    ("JSONArrayOfObjects::from_json", b"[", b"{\"name\": \"n\", \"num\": 1},", b"{\"name\": \"n\", \"num\": 1}]"),
    ("JSON::parse_as_properties", b"{", b"\"k\": 1, ", b"\"z\": 2}"),
    ("read_config_file", b"", b"ip = '127.0.0.1'\n", b""),
    ("Range::parse_content_range", b"bytes=", b"0-0,", b"1-1"),
    ("UrlPath::extract_parts_from_pattern", b"", b"/[[a]]", b""),
    ("Base64::decode", b"", b"Zm9v", b""),
];

pub const NUMBERS: &[&str] = &["0", "1", "2147483648", "4294967296", "1000000000000000", "9223372036854775807", "9223372036854775808", "18446744073709551615", "18446744073709551616", "340282366920938463463374607431768211456", "99999999999999999999999999999999999999999"];

/// maximal runs of ASCII digits: (start, end)
pub fn digit_runs(seed: &[u8]) -> Vec<(usize, usize)> {
    let mut v = Vec::new();
    let mut i = 0;
    while i < seed.len() {
        if seed[i].is_ascii_digit() {
            let st = i;
            while i < seed.len() && seed[i].is_ascii_digit() {
                i += 1;
            }
            v.push((st, i));
        } else {
            i += 1;
        }
    }
    v
}
pub fn replace_runs(seed: &[u8], runs: &[(usize, usize)], which: &[usize], with: &[u8]) -> Vec<u8> {
    let mut out = Vec::new();
    let mut pos = 0;
    for (i, (st, en)) in runs.iter().enumerate() {
        if which.contains(&i) {
            out.extend_from_slice(&seed[pos..*st]);
            out.extend_from_slice(with);
            pos = *en;
        }
    }
    out.extend_from_slice(&seed[pos..]);
    out
}

pub const HOSTILE: &[u8] = &[0x00, 0x09, 0x0a, 0x0d, 0x20, 0x22, 0x2c, 0x2d, 0x2e, 0x2f, 0x30, 0x39, 0x3a, 0x3d, 0x5b, 0x5c, 0x5d, 0x7b, 0x7d, 0x80, 0xc3, 0xff];

#[derive(Clone, Debug)]
pub struct Case {
    pub target: usize,
    pub family: &'static str,
    pub input: Vec<u8>,
    pub gen: Value,
}

fn run_one(ctx: &mut Ctx, t: &Target, case: Case) {
    let mut key = format!("{}\0", t.name).into_bytes();
    key.extend_from_slice(&case.input);
    let describe = |c: &Case| {
        if c.input.len() <= 4096 {
            json!({"target": t.name, "family": c.family, "input_hex": hex(&c.input)})
        } else {
            json!({"target": t.name, "family": c.family, "gen": c.gen})
        }
    };
    if !ctx.begin_case(&key, || describe(&case)) {
        return;
    }
    ctx.nontrivial();
    ctx.sample(|| describe(&case));
    ctx.add(&format!("cases_{}", case.family), 1);
    let r = guard(|| (t.call)(&case.input));
    match r {
        Ok(()) => ctx.outcome(&format!("{}:returned", case.family)),
        Err(p) => {
            ctx.outcome(&format!("{}:panic", case.family));
            ctx.fail(&format!("C20:panic:{}:{}", crate::props::c04::call_site(&p.location), panic_class(&p.message)), || describe(&case), format!("{}: {} at {}", t.name, p.message, p.location));
        }
    }
}

fn input_from_gen(t: &Target, gen: &Value) -> Vec<u8> {
    match gen["kind"].as_str() {
        Some("nest") => {
            let (o, c, cl) = t.nest.unwrap();
            let d = gen["depth"].as_u64().unwrap_or(1) as usize;
            let mut v = Vec::new();
            for _ in 0..d {
                v.extend_from_slice(o);
            }
            v.extend_from_slice(c);
            if gen["closed"].as_bool().unwrap_or(true) {
                for _ in 0..d {
                    v.extend_from_slice(cl);
                }
            }
            v
        }
        Some("repeat") => {
            let r = REPEATS[gen["index"].as_u64().unwrap_or(0) as usize % REPEATS.len()];
            let k = gen["k"].as_u64().unwrap_or(1) as usize;
            let mut v = r.1.to_vec();
            for _ in 0..k {
                v.extend_from_slice(r.2);
            }
            v.extend_from_slice(r.3);
            v
        }
        Some("long") => {
            let seed = t.seeds[gen["seed"].as_u64().unwrap_or(0) as usize % t.seeds.len()];
            let at = gen["at"].as_u64().unwrap_or(0) as usize;
            let n = gen["len"].as_u64().unwrap_or(0) as usize;
            let fill = gen["fill"].as_u64().unwrap_or(97) as u8;
            let at = at.min(seed.len());
            let mut v = seed[..at].to_vec();
            v.extend(std::iter::repeat(fill).take(n));
            v.extend_from_slice(&seed[at..]);
            v
        }
        _ => Vec::new(),
    }
}

pub fn run(ctx: &mut Ctx) {
    let thorough = ctx.tier.thorough();
    let root = crate::tree::scratch_root("c20");
    std::fs::write(root.join("c20-ten.txt"), b"0123456789").unwrap();
    std::env::set_current_dir(&root).unwrap();
    let ts = targets();
    ctx.bound("entry_points", json!(ts.iter().map(|t| t.name).collect::<Vec<_>>()));
    ctx.bound("short", json!(format!("every concatenation of <= {} symbols of the entry point's delimiter alphabet (15..18 symbols incl. NUL, a multi-byte character and invalid UTF-8)", if thorough { 4 } else { 3 })));
    ctx.bound("mutation", json!(format!("every single mutation of every seed: truncation at each offset, each byte replaced by each of {} hostile bytes, deletion, duplication{}", HOSTILE.len(), if thorough { "; every pair of replacements on seeds <= 40 bytes" } else { "" })));
    ctx.bound("numbers", json!({"values": NUMBERS, "positions": "every number of every seed, every pair of numbers (same value), all numbers at once"}));
    ctx.bound("repetitions", json!("2^i copies (i = 0..14, 0..16 in thorough) of a header line / part / array element / key / config line / range spec / path token, per entry point that reads such units"));
    ctx.bound("structure", json!("nesting depth 2^k for k = 0..12 (0..16 in thorough; closed and unclosed) where the format nests; a run of 65536 identical bytes inserted at 3 positions of every seed"));
    for (ti, t) in ts.iter().enumerate() {
        // short strings over the alphabet
        enumerate::sequences(t.alphabet.len(), if thorough { 4 } else { 3 }, &mut |idx| {
            let input = enumerate::concat_bytes(t.alphabet, idx);
            run_one(ctx, t, Case { target: ti, family: "short", input, gen: Value::Null });
        });
        // single mutations of the seeds
        for seed in t.seeds {
            run_one(ctx, t, Case { target: ti, family: "seed", input: seed.to_vec(), gen: Value::Null });
            for at in 0..seed.len() {
                run_one(ctx, t, Case { target: ti, family: "truncate", input: seed[..at].to_vec(), gen: Value::Null });
                let mut del = seed.to_vec();
                del.remove(at);
                run_one(ctx, t, Case { target: ti, family: "delete", input: del, gen: Value::Null });
                let mut dup = seed.to_vec();
                dup.insert(at, seed[at]);
                run_one(ctx, t, Case { target: ti, family: "duplicate", input: dup, gen: Value::Null });
                for h in HOSTILE {
                    let mut m = seed.to_vec();
                    m[at] = *h;
                    run_one(ctx, t, Case { target: ti, family: "replace", input: m, gen: Value::Null });
                }
            }
            if thorough && seed.len() <= 40 {
                for a in 0..seed.len() {
                    for b in (a + 1)..seed.len() {
                        for h1 in HOSTILE {
                            for h2 in HOSTILE {
                                let mut m = seed.to_vec();
                                m[a] = *h1;
                                m[b] = *h2;
                                run_one(ctx, t, Case { target: ti, family: "replace2", input: m, gen: Value::Null });
                            }
                        }
                    }
                }
            }
        }
        // every number of every seed (and every pair of numbers, and all of them at once) replaced by
        // boundary values of the integer types: sizes, offsets and lengths the parser may add,
        // subtract, multiply or allocate by
        for seed in t.seeds {
            let runs = digit_runs(seed);
            let mut subsets: Vec<Vec<usize>> = (0..runs.len()).map(|i| vec![i]).collect();
            for a in 0..runs.len() {
                for b in (a + 1)..runs.len() {
                    subsets.push(vec![a, b]);
                }
            }
            if runs.len() > 2 {
                subsets.push((0..runs.len()).collect());
            }
            for sub in &subsets {
                for n in NUMBERS {
                    let input = replace_runs(seed, &runs, sub, n.as_bytes());
                    run_one(ctx, t, Case { target: ti, family: "numbers", input, gen: Value::Null });
                }
            }
        }
        // deep nesting
        if t.nest.is_some() {
            for k in 0..=(if thorough { 16u32 } else { 12u32 }) {
                for closed in [true, false] {
                    let gen = json!({"kind":"nest","depth": 1u64 << k, "closed": closed});
                    let input = input_from_gen(t, &gen);
                    run_one(ctx, t, Case { target: ti, family: "deep-nesting", input, gen });
                }
            }
        }
        // many repetitions of a structural unit (lines, parts, elements)
        for (ri, r) in REPEATS.iter().enumerate() {
            if r.0 != t.name {
                continue;
            }
            for i in 0..=(if thorough { 16u32 } else { 14u32 }) {
                let gen = json!({"kind":"repeat","index":ri,"k": 1u64 << i});
                let input = input_from_gen(t, &gen);
                run_one(ctx, t, Case { target: ti, family: "many-repetitions", input, gen });
            }
        }
        // long runs
        for (si, seed) in t.seeds.iter().enumerate().take(2) {
            for at in [0usize, seed.len() / 2, seed.len()] {
                for fill in [b'a', b'-', b' '] {
                    let gen = json!({"kind":"long","seed":si,"at":at,"len":65536,"fill":fill});
                    let input = input_from_gen(t, &gen);
                    run_one(ctx, t, Case { target: ti, family: "long-run", input, gen });
                }
            }
        }
    }
    std::env::set_current_dir("/").unwrap();
    let _ = std::fs::remove_dir_all(&root);
}

pub fn replay(v: &Value) -> Vec<Failure> {
    let root = crate::tree::scratch_root("c20r");
    std::fs::write(root.join("c20-ten.txt"), b"0123456789").unwrap();
    std::env::set_current_dir(&root).unwrap();
    let ts = targets();
    let name = v["target"].as_str().unwrap_or("");
    let mut out = Vec::new();
    if let Some(t) = ts.iter().find(|t| t.name == name) {
        let input = if v.get("input_hex").is_some() { unhex(v["input_hex"].as_str().unwrap_or("")) } else { input_from_gen(t, &v["gen"]) };
        if let Err(p) = guard(|| (t.call)(&input)) {
            out.push(Failure { signature: format!("C20:panic:{}:{}", crate::props::c04::call_site(&p.location), panic_class(&p.message)), case: v.clone(), detail: format!("{}: {} at {}", t.name, p.message, p.location), hash: 0 });
        }
    } else {
        out.push(Failure { signature: "C20:bad-replay-file".into(), case: v.clone(), detail: "unknown target".into(), hash: 0 });
    }
    std::env::set_current_dir("/").unwrap();
    let _ = std::fs::remove_dir_all(&root);
    out
}
