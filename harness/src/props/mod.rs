//! One module per property. Each exposes
//!   run(ctx)            - enumerate the whole bounded space for ctx.tier, sharded by ctx
//!   replay(case) -> Vec<Failure>   - re-run exactly one case from a replay file
use crate::engine::{Ctx, Failure};
use serde_json::Value;

pub mod c01;
pub mod c02;
pub mod c03;
pub mod c04;
pub mod c05;
pub mod c06;
pub mod c06b;
pub mod c08;
pub mod c09;
pub mod c10;
pub mod c11;
pub mod c13;
pub mod c14;
pub mod c15;
pub mod c16;
pub mod c17;
pub mod c18;
pub mod c19;
pub mod c20;

pub fn run(prop: &str, ctx: &mut Ctx) -> bool {
    match prop {
        "C01" => c01::run(ctx),
        "C02" => c02::run(ctx),
        "C03" => c03::run(ctx),
        "C04" => c04::run(ctx),
        "C05" => c05::run(ctx),
        "C06" => c06::run(ctx),
        "C08" => c08::run(ctx),
        "C09" => c09::run(ctx),
        "C10" => c10::run(ctx),
        "C11" => c11::run(ctx),
        "C13" => c13::run(ctx),
        "C14" => c14::run(ctx),
        "C15" => c15::run(ctx),
        "C16" => c16::run(ctx),
        "C17" => c17::run(ctx),
        "C18" => c18::run(ctx),
        "C19" => c19::run(ctx),
        "C20" => c20::run(ctx),
        _ => return false,
    }
    true
}

pub fn replay(prop: &str, case: &Value) -> Option<Vec<Failure>> {
    Some(match prop {
        "C01" => c01::replay(case),
        "C02" => c02::replay(case),
        "C03" => c03::replay(case),
        "C04" => c04::replay(case),
        "C05" => c05::replay(case),
        "C06" => c06::replay(case),
        "C08" => c08::replay(case),
        "C09" => c09::replay(case),
        "C10" => c10::replay(case),
        "C11" => c11::replay(case),
        "C13" => c13::replay(case),
        "C14" => c14::replay(case),
        "C15" => c15::replay(case),
        "C16" => c16::replay(case),
        "C17" => c17::replay(case),
        "C18" => c18::replay(case),
        "C19" => c19::replay(case),
        "C20" => c20::replay(case),
        _ => return None,
    })
}
