//! File-system calls as scheduling points.
//!
//! The request path of rws reads files through std::fs, i.e. through libc's `read`,
//! `lseek64`, `statx`, `close`. The kernel objects behind them (the offset of an open file
//! description, the directory) are state that two workers can share. This module defines
//! those libc entry points in the harness executable itself - the static linker binds std's
//! calls to these definitions - and forwards them to the kernel with `syscall`. While
//! `enable(true)` is in force, a thread that is registered with a baton reaches a scheduling
//! point (`verif_hooks::point`) before each of them, so the E4 explorer also enumerates the
//! interleavings *between* two file-system calls of one request (the hook points in /repo are
//! coarser: they sit around whole reads). For every other thread, and while disabled, the
//! functions are plain pass-throughs.

use libc::{c_char, c_int, c_uint, c_void, off64_t, size_t, ssize_t};
use std::sync::atomic::{AtomicBool, AtomicU64, Ordering};

static ENABLED: AtomicBool = AtomicBool::new(false);
static CROSSED: AtomicU64 = AtomicU64::new(0);

pub fn enable(on: bool) {
    ENABLED.store(on, Ordering::SeqCst);
}
/// number of file-system calls that went through a scheduling point
pub fn crossed() -> u64 {
    CROSSED.load(Ordering::SeqCst)
}

#[inline]
fn at(label: &'static str, fd: c_int) {
    // fds 0..2 are the harness's own channels
    if fd > 2 && ENABLED.load(Ordering::Relaxed) {
        CROSSED.fetch_add(1, Ordering::Relaxed);
        crate::verif_hooks::point(label);
    }
}

#[no_mangle]
pub unsafe extern "C" fn read(fd: c_int, buf: *mut c_void, count: size_t) -> ssize_t {
    at("sys.read", fd);
    libc::syscall(libc::SYS_read, fd, buf, count) as ssize_t
}

#[no_mangle]
pub unsafe extern "C" fn lseek64(fd: c_int, offset: off64_t, whence: c_int) -> off64_t {
    at("sys.lseek", fd);
    libc::syscall(libc::SYS_lseek, fd, offset, whence) as off64_t
}

#[no_mangle]
pub unsafe extern "C" fn lseek(fd: c_int, offset: libc::off_t, whence: c_int) -> libc::off_t {
    at("sys.lseek", fd);
    libc::syscall(libc::SYS_lseek, fd, offset, whence) as libc::off_t
}

#[no_mangle]
pub unsafe extern "C" fn pread64(fd: c_int, buf: *mut c_void, count: size_t, offset: off64_t) -> ssize_t {
    at("sys.pread", fd);
    libc::syscall(libc::SYS_pread64, fd, buf, count, offset) as ssize_t
}

#[no_mangle]
pub unsafe extern "C" fn statx(dirfd: c_int, path: *const c_char, flags: c_int, mask: c_uint, buf: *mut libc::statx) -> c_int {
    at("sys.statx", 3);
    libc::syscall(libc::SYS_statx, dirfd, path, flags, mask, buf) as c_int
}
