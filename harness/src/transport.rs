//! Scripted connection: what `read` answers, how `write` accepts bytes, what `flush` says.
//! The server reads once and writes once (plus flush); every answer the transport can give
//! to those calls is a value of these enums, so fault enumeration is enumeration of values.

use std::io::{self, ErrorKind, Read, Write};
use std::sync::{Arc, Condvar, Mutex};

#[derive(Clone, Debug)]
pub enum ReadPlan {
    /// deliver the whole input in the first read (as much as fits the buffer)
    Full,
    /// deliver only the first n bytes (half-sent request), later reads return 0
    Prefix(usize),
    /// Ok(0): peer closed before sending
    Eof,
    Err(ErrorKind),
    /// block until the gate opens, then deliver everything
    Gated(Arc<Gate>),
}

#[derive(Clone, Debug)]
pub enum WritePlan {
    AcceptAll,
    /// first call accepts c bytes (c>=1), later calls accept everything
    FirstChunk(usize),
    /// every call accepts at most k bytes
    Uniform(usize),
    /// calls accept everything until `at` bytes were taken in total, then the next call fails
    ErrAt(usize, ErrorKind),
    /// first call fails with a retryable kind, afterwards as `then`
    RetryableThen(ErrorKind, Box<WritePlan>),
}

#[derive(Debug, Default)]
pub struct Gate {
    pub m: Mutex<(bool, usize)>, // (open, waiting)
    pub cv: Condvar,
}
impl Gate {
    pub fn new() -> Arc<Gate> {
        Arc::new(Gate::default())
    }
    pub fn open(&self) {
        let mut g = self.m.lock().unwrap();
        g.0 = true;
        self.cv.notify_all();
    }
    pub fn waiting(&self) -> usize {
        self.m.lock().unwrap().1
    }
    /// true if the gate opened, false on timeout
    pub fn wait(&self, horizon: std::time::Duration) -> bool {
        let mut g = self.m.lock().unwrap();
        g.1 += 1;
        self.cv.notify_all();
        let start = std::time::Instant::now();
        while !g.0 {
            let left = horizon.checked_sub(start.elapsed());
            if left.is_none() {
                g.1 -= 1;
                return false;
            }
            g = self.cv.wait_timeout(g, left.unwrap()).unwrap().0;
        }
        g.1 -= 1;
        true
    }
    /// wait until n threads are blocked in the gate (or timeout)
    pub fn wait_waiting(&self, n: usize, horizon: std::time::Duration) -> bool {
        let mut g = self.m.lock().unwrap();
        let start = std::time::Instant::now();
        while g.1 < n {
            let left = horizon.checked_sub(start.elapsed());
            if left.is_none() {
                return false;
            }
            g = self.cv.wait_timeout(g, left.unwrap()).unwrap().0;
        }
        true
    }
}

#[derive(Debug)]
pub struct MockStream {
    pub input: Vec<u8>,
    pub pos: usize,
    pub read_plan: ReadPlan,
    pub write_plan: WritePlan,
    pub flush_err: Option<ErrorKind>,
    /// bytes the transport accepted, in order
    pub written: Vec<u8>,
    pub read_calls: usize,
    pub write_calls: usize,
    pub flush_calls: usize,
    pub points: bool,
}

impl MockStream {
    pub fn new(input: &[u8]) -> MockStream {
        MockStream {
            input: input.to_vec(),
            pos: 0,
            read_plan: ReadPlan::Full,
            write_plan: WritePlan::AcceptAll,
            flush_err: None,
            written: Vec::new(),
            read_calls: 0,
            write_calls: 0,
            flush_calls: 0,
            points: true,
        }
    }
    pub fn with_read(mut self, p: ReadPlan) -> Self {
        self.read_plan = p;
        self
    }
    pub fn with_write(mut self, p: WritePlan) -> Self {
        self.write_plan = p;
        self
    }
    pub fn with_flush_err(mut self, k: ErrorKind) -> Self {
        self.flush_err = Some(k);
        self
    }
}

/// Liveness guard: code that keeps calling read on a stream that only ever answers "end of
/// stream" or the same error is spinning (a real socket answers the same way for ever). After
/// 200 000 such calls the calling thread is parked for good - a busy loop becomes a blocked
/// thread, which the harnesses observe as "never finished" - and the event is counted.
static RUNAWAYS: std::sync::atomic::AtomicUsize = std::sync::atomic::AtomicUsize::new(0);
pub fn runaways() -> usize {
    RUNAWAYS.load(std::sync::atomic::Ordering::SeqCst)
}
const RUNAWAY_LIMIT: usize = 200_000;
fn park_for_good() -> ! {
    RUNAWAYS.fetch_add(1, std::sync::atomic::Ordering::SeqCst);
    loop {
        std::thread::sleep(std::time::Duration::from_secs(3600));
    }
}

impl Read for MockStream {
    fn read(&mut self, buf: &mut [u8]) -> io::Result<usize> {
        if self.points {
            crate::verif_hooks::point("io.read");
        }
        self.read_calls += 1;
        if self.read_calls > RUNAWAY_LIMIT && !buf.is_empty() {
            park_for_good();
        }
        let limit = match &self.read_plan {
            ReadPlan::Full => self.input.len(),
            ReadPlan::Prefix(n) => (*n).min(self.input.len()),
            ReadPlan::Eof => return Ok(0),
            ReadPlan::Err(k) => return Err(io::Error::new(*k, format!("scripted read error {:?}", k))),
            ReadPlan::Gated(g) => {
                if !g.wait(std::time::Duration::from_secs(20)) {
                    return Err(io::Error::new(ErrorKind::TimedOut, "gate horizon"));
                }
                self.input.len()
            }
        };
        let avail = limit.saturating_sub(self.pos);
        let n = avail.min(buf.len());
        buf[..n].copy_from_slice(&self.input[self.pos..self.pos + n]);
        self.pos += n;
        Ok(n)
    }
}

fn accept(plan: &mut WritePlan, written: usize, calls: usize, len: usize) -> io::Result<usize> {
    match plan {
        WritePlan::AcceptAll => Ok(len),
        WritePlan::FirstChunk(c) => {
            if calls == 1 {
                Ok((*c).min(len))
            } else {
                Ok(len)
            }
        }
        WritePlan::Uniform(k) => Ok((*k).min(len)),
        WritePlan::ErrAt(at, kind) => {
            if written >= *at {
                Err(io::Error::new(*kind, format!("scripted write error {:?}", kind)))
            } else {
                Ok((at.saturating_sub(written)).min(len))
            }
        }
        WritePlan::RetryableThen(kind, then) => {
            if calls == 1 {
                Err(io::Error::new(*kind, "scripted retryable write error"))
            } else {
                accept(then, written, calls - 1, len)
            }
        }
    }
}

impl Write for MockStream {
    fn write(&mut self, buf: &[u8]) -> io::Result<usize> {
        if self.points {
            crate::verif_hooks::point("io.write");
        }
        self.write_calls += 1;
        if buf.is_empty() {
            return Ok(0);
        }
        let n = accept(&mut self.write_plan, self.written.len(), self.write_calls, buf.len())?;
        self.written.extend_from_slice(&buf[..n]);
        Ok(n)
    }
    fn flush(&mut self) -> io::Result<()> {
        if self.points {
            crate::verif_hooks::point("io.flush");
        }
        self.flush_calls += 1;
        match self.flush_err {
            Some(k) => Err(io::Error::new(k, "scripted flush error")),
            None => Ok(()),
        }
    }
}
