//! Document trees: a description (used by the reference models) and its materialisation.

use std::collections::BTreeMap;
use std::fs;
use std::os::unix::fs::MetadataExt;
use std::path::{Path, PathBuf};

#[derive(Clone, Debug, PartialEq, Eq)]
pub enum Node {
    File(Vec<u8>),
    Dir,
    /// "@/rel" = points at <root>/rel ; anything else is used verbatim as the link target
    Link(String),
}

#[derive(Clone, Debug, Default)]
pub struct TreeSpec {
    pub entries: BTreeMap<String, Node>,
}

impl TreeSpec {
    pub fn new() -> TreeSpec {
        TreeSpec::default()
    }
    fn parents(&mut self, rel: &str) {
        let mut cur = String::new();
        let segs: Vec<&str> = rel.split('/').collect();
        for s in &segs[..segs.len() - 1] {
            cur = if cur.is_empty() { s.to_string() } else { format!("{}/{}", cur, s) };
            self.entries.entry(cur.clone()).or_insert(Node::Dir);
        }
    }
    pub fn file(&mut self, rel: &str, content: &[u8]) -> &mut Self {
        self.parents(rel);
        self.entries.insert(rel.to_string(), Node::File(content.to_vec()));
        self
    }
    pub fn dir(&mut self, rel: &str) -> &mut Self {
        self.parents(rel);
        self.entries.insert(rel.to_string(), Node::Dir);
        self
    }
    pub fn link(&mut self, rel: &str, target: &str) -> &mut Self {
        self.parents(rel);
        self.entries.insert(rel.to_string(), Node::Link(target.to_string()));
        self
    }
    pub fn get(&self, rel: &str) -> Option<&Node> {
        self.entries.get(rel)
    }
    pub fn content(&self, rel: &str) -> Option<&[u8]> {
        match self.entries.get(rel) {
            Some(Node::File(c)) => Some(c),
            _ => None,
        }
    }
    /// is some prefix of `rel` a symlink the model does not follow?
    pub fn has_link_on(&self, rel: &str) -> bool {
        let mut cur = String::new();
        for s in rel.split('/') {
            cur = if cur.is_empty() { s.to_string() } else { format!("{}/{}", cur, s) };
            if let Some(Node::Link(t)) = self.entries.get(&cur) {
                if !t.starts_with("@/") {
                    return true;
                }
                return true;
            }
        }
        false
    }

    pub fn build(&self, root: &Path) {
        fs::create_dir_all(root).unwrap();
        // BTreeMap order guarantees parents before children
        for (rel, node) in &self.entries {
            let p = root.join(rel);
            match node {
                Node::Dir => {
                    fs::create_dir_all(&p).unwrap();
                }
                Node::File(c) => {
                    if let Some(par) = p.parent() {
                        fs::create_dir_all(par).unwrap();
                    }
                    fs::write(&p, c).unwrap();
                }
                Node::Link(t) => {
                    if let Some(par) = p.parent() {
                        fs::create_dir_all(par).unwrap();
                    }
                    let target: PathBuf = match t.strip_prefix("@/") {
                        Some(inner) => root.join(inner),
                        None => PathBuf::from(t),
                    };
                    let _ = fs::remove_file(&p);
                    std::os::unix::fs::symlink(&target, &p).unwrap();
                }
            }
        }
    }
}

/// Position-coded content: byte i is a pseudo-random function of i (and a per-file salt),
/// so every returned byte proves its offset and its file.
pub fn coded(len: usize, salt: u32) -> Vec<u8> {
    (0..len)
        .map(|i| {
            let x = (i as u32).wrapping_add(salt.wrapping_mul(0x9E37_79B9)).wrapping_mul(2654435761);
            ((x >> 24) ^ (x >> 13)) as u8
        })
        .collect()
}

/// Printable position-coded content (for files whose bytes must be valid UTF-8 text).
pub fn coded_text(len: usize, salt: u32) -> Vec<u8> {
    coded(len, salt).into_iter().map(|b| b'a' + (b % 26)).collect()
}

/// Full manifest of a directory: path -> (kind, size, content hash, link target, mode, mtime).
pub fn manifest(root: &Path) -> BTreeMap<String, String> {
    let mut out = BTreeMap::new();
    fn walk(root: &Path, dir: &Path, out: &mut BTreeMap<String, String>) {
        let rd = match fs::read_dir(dir) {
            Ok(r) => r,
            Err(e) => {
                out.insert(format!("{}!", dir.display()), format!("unreadable: {}", e));
                return;
            }
        };
        for e in rd.flatten() {
            let p = e.path();
            let rel = p.strip_prefix(root).unwrap().to_string_lossy().to_string();
            let md = match fs::symlink_metadata(&p) {
                Ok(m) => m,
                Err(_) => continue,
            };
            if md.file_type().is_symlink() {
                let t = fs::read_link(&p).map(|t| t.to_string_lossy().to_string()).unwrap_or_default();
                out.insert(rel, format!("link -> {}", t));
            } else if md.is_dir() {
                out.insert(rel, format!("dir mode={:o} mtime={}.{}", md.mode(), md.mtime(), md.mtime_nsec()));
                walk(root, &p, out);
            } else {
                let c = fs::read(&p).unwrap_or_default();
                out.insert(
                    rel,
                    format!(
                        "file size={} hash={:016x}{:016x} mode={:o} mtime={}.{}",
                        md.len(),
                        crate::engine::fnv64(&c),
                        crate::engine::fnv64(&[&c[..], b"salt"].concat()),
                        md.mode(),
                        md.mtime(),
                        md.mtime_nsec()
                    ),
                );
            }
        }
    }
    let md = fs::symlink_metadata(root).ok();
    if let Some(md) = md {
        out.insert(".".to_string(), format!("dir mode={:o} mtime={}.{}", md.mode(), md.mtime(), md.mtime_nsec()));
    }
    walk(root, root, &mut out);
    out
}

pub fn scratch_root(tag: &str) -> PathBuf {
    let base = std::env::var("RWSV_SCRATCH").unwrap_or_else(|_| std::env::temp_dir().to_string_lossy().to_string());
    let p = PathBuf::from(base).join(format!("rwsv-{}-{}", tag, std::process::id()));
    let _ = fs::remove_dir_all(&p);
    fs::create_dir_all(&p).unwrap();
    p
}
