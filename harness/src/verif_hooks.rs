//! Harness side of `crate::verif_hooks` (the repo ships a no-op version of this module
//! under `--cfg rws_verif`; the harness substitutes this one through `#[path]`-free module
//! resolution: lib.rs declares `pub mod verif_hooks;` itself).
//!
//! `point(label)` is a scheduling point of the *baton scheduler* (engine E4): when the
//! calling thread is registered with a `Baton`, exactly one registered thread runs at a
//! time and control can change hands only at points. When no baton is installed on the
//! thread, `point` is a thread-local load and nothing else.

pub use std::sync::{mpsc, Arc, Mutex};
pub use std::thread;

use std::cell::RefCell;
use std::sync::Condvar;
use std::time::{Duration, Instant};

/// std build of the harness: a worker leaves its loop when the pool (and with it the
/// sender) has been dropped, so that the thousands of pools the history search creates do
/// not leave spinning threads behind. While a pool is alive this is never consulted.
#[inline(always)]
pub fn exit_on_disconnect() -> bool {
    true
}

thread_local! {
    static CUR: RefCell<Option<(Arc<Baton>, usize)>> = RefCell::new(None);
    static TRACE: RefCell<Option<Vec<&'static str>>> = RefCell::new(None);
}

#[inline]
pub fn point(label: &'static str) {
    TRACE.with(|t| {
        if let Some(v) = t.borrow_mut().as_mut() {
            v.push(label);
        }
    });
    let cur = CUR.with(|c| c.borrow().clone());
    if let Some((b, tid)) = cur {
        b.yield_at(tid, label);
    }
}

/// Record the labels of the points hit by this thread (no scheduling). Used to show which
/// hook points a request actually crosses.
pub fn trace_begin() {
    TRACE.with(|t| *t.borrow_mut() = Some(Vec::new()));
}
pub fn trace_end() -> Vec<&'static str> {
    TRACE.with(|t| t.borrow_mut().take().unwrap_or_default())
}

#[derive(Clone, Debug)]
pub struct Step {
    /// thread that was running when the decision was taken (None: start, or it finished)
    pub running: Option<usize>,
    /// enabled threads in canonical order: running thread first (if still enabled), then ascending ids
    pub enabled: Vec<usize>,
    pub chosen: usize, // index into enabled
    pub label: &'static str,
}

struct State {
    current: Option<usize>,
    finished: Vec<bool>,
    arrived: Vec<bool>,
    prefix: Vec<usize>,
    steps: Vec<Step>,
    free_run: bool,
    diverged: Option<String>,
}

pub struct Baton {
    m: std::sync::Mutex<State>,
    cv: Condvar,
    n: usize,
}

impl Baton {
    pub fn new(n: usize, prefix: Vec<usize>) -> Arc<Baton> {
        Arc::new(Baton {
            m: std::sync::Mutex::new(State {
                current: None,
                finished: vec![false; n],
                arrived: vec![false; n],
                prefix,
                steps: Vec::new(),
                free_run: false,
                diverged: None,
            }),
            cv: Condvar::new(),
            n,
        })
    }

    fn decide(st: &mut State, running: Option<usize>, label: &'static str) {
        let mut enabled = Vec::new();
        if let Some(r) = running {
            if !st.finished[r] {
                enabled.push(r);
            }
        }
        for t in 0..st.finished.len() {
            if !st.finished[t] && Some(t) != running {
                enabled.push(t);
            }
        }
        if enabled.is_empty() {
            st.current = None;
            return;
        }
        let i = st.steps.len();
        let mut chosen = 0usize;
        if i < st.prefix.len() {
            chosen = st.prefix[i];
            if chosen >= enabled.len() {
                st.diverged = Some(format!(
                    "prefix choice {} out of range at step {} (enabled {:?}, label {})",
                    chosen, i, enabled, label
                ));
                chosen = 0;
            }
        }
        st.current = Some(enabled[chosen]);
        st.steps.push(Step { running, enabled, chosen, label });
    }

    /// Called by a controlled thread before it runs any code under test.
    pub fn enter(self: &Arc<Baton>, tid: usize) {
        CUR.with(|c| *c.borrow_mut() = Some((self.clone(), tid)));
        let mut st = self.m.lock().unwrap();
        st.arrived[tid] = true;
        if st.arrived.iter().all(|a| *a) && st.current.is_none() && st.steps.is_empty() {
            Baton::decide(&mut st, None, "start");
            self.cv.notify_all();
        }
        while !(st.free_run || st.current == Some(tid)) {
            st = self.cv.wait(st).unwrap();
        }
    }

    pub fn yield_at(self: &Arc<Baton>, tid: usize, label: &'static str) {
        let mut st = self.m.lock().unwrap();
        if st.free_run {
            return;
        }
        Baton::decide(&mut st, Some(tid), label);
        self.cv.notify_all();
        while !(st.free_run || st.current == Some(tid)) {
            st = self.cv.wait(st).unwrap();
        }
    }

    pub fn leave(self: &Arc<Baton>, tid: usize) {
        CUR.with(|c| *c.borrow_mut() = None);
        let mut st = self.m.lock().unwrap();
        st.finished[tid] = true;
        if st.free_run {
            self.cv.notify_all();
            return;
        }
        Baton::decide(&mut st, None, "finish");
        self.cv.notify_all();
    }

    /// Wait until all threads finished; on timeout release everybody (the schedule is
    /// infeasible: some thread is blocked outside the baton, e.g. on a real lock).
    pub fn wait_all(self: &Arc<Baton>, horizon: Duration) -> bool {
        let start = Instant::now();
        let mut st = self.m.lock().unwrap();
        loop {
            if st.finished.iter().all(|f| *f) {
                return !st.free_run;
            }
            let el = start.elapsed();
            if el >= horizon && !st.free_run {
                st.free_run = true;
                self.cv.notify_all();
            }
            let (g, _) = self.cv.wait_timeout(st, Duration::from_millis(50)).unwrap();
            st = g;
        }
    }

    pub fn steps(&self) -> Vec<Step> {
        self.m.lock().unwrap().steps.clone()
    }
    pub fn diverged(&self) -> Option<String> {
        self.m.lock().unwrap().diverged.clone()
    }
}

pub struct Execution<T> {
    pub steps: Vec<Step>,
    pub results: Vec<Option<T>>, // None: the thread panicked
    pub feasible: bool,
    pub diverged: Option<String>,
}

/// Run the bodies on named OS threads, one at a time, following `prefix` and then always
/// choice 0 (keep running the current thread; when it finishes, the lowest id).
pub fn run_schedule<T: Send + 'static>(
    bodies: Vec<Box<dyn FnOnce() -> T + Send + 'static>>,
    prefix: &[usize],
    horizon: Duration,
) -> Execution<T> {
    let n = bodies.len();
    let baton = Baton::new(n, prefix.to_vec());
    let mut handles = Vec::new();
    for (tid, body) in bodies.into_iter().enumerate() {
        let b = baton.clone();
        let h = std::thread::Builder::new()
            .name(format!("{}", tid))
            .spawn(move || {
                b.enter(tid);
                let r = std::panic::catch_unwind(std::panic::AssertUnwindSafe(body));
                b.leave(tid);
                r.ok()
            })
            .unwrap();
        handles.push(h);
    }
    let feasible = baton.wait_all(horizon);
    let mut results = Vec::new();
    for h in handles {
        results.push(h.join().ok().flatten());
    }
    Execution { steps: baton.steps(), results, feasible, diverged: baton.diverged() }
}

/// Number of preemptions among steps[..upto]: a step is a preemption when the running
/// thread was still enabled and another thread was chosen.
pub fn preemptions(steps: &[Step], upto: usize) -> usize {
    steps[..upto]
        .iter()
        .filter(|s| s.running.is_some() && s.enabled.first() == s.running.as_ref() && s.chosen != 0)
        .count()
}

pub struct ExploreStats {
    pub executions: u64,
    pub transitions: u64,
    pub infeasible: u64,
    pub max_steps: usize,
    pub capped: bool,
}

/// Depth-first enumeration of every schedule with at most `bound` preemptions.
/// `mk` builds fresh bodies for each execution; `check` sees each complete execution and
/// the schedule (choice list) that produced it; returning false stops the exploration.
pub fn explore<T: Send + 'static>(
    mk: &mut dyn FnMut() -> Vec<Box<dyn FnOnce() -> T + Send + 'static>>,
    bound: usize,
    max_exec: u64,
    check: &mut dyn FnMut(&Execution<T>, &[usize]) -> bool,
) -> ExploreStats {
    let mut stats = ExploreStats { executions: 0, transitions: 0, infeasible: 0, max_steps: 0, capped: false };
    let mut stack: Vec<Vec<usize>> = vec![vec![]];
    while let Some(prefix) = stack.pop() {
        if stats.executions >= max_exec {
            stats.capped = true;
            break;
        }
        let x = run_schedule(mk(), &prefix, Duration::from_secs(3));
        stats.executions += 1;
        stats.transitions += x.steps.len() as u64;
        stats.max_steps = stats.max_steps.max(x.steps.len());
        if !x.feasible {
            stats.infeasible += 1;
            continue;
        }
        let choices: Vec<usize> = x.steps.iter().map(|s| s.chosen).collect();
        if !check(&x, &choices) {
            break;
        }
        for i in prefix.len()..x.steps.len() {
            let p = &x.steps[i];
            let before = preemptions(&x.steps, i);
            let running_enabled = p.running.is_some() && p.enabled.first() == p.running.as_ref();
            let cost = before + if running_enabled { 1 } else { 0 };
            if cost > bound {
                continue;
            }
            for alt in 1..p.enabled.len() {
                let mut np = choices[..i].to_vec();
                np.push(alt);
                stack.push(np);
            }
        }
    }
    stats
}
