"""Binds the in-process harness to the real binary: the same requests are answered by the real
rws process over loopback and by Server::process on a scripted stream; the answers must be equal
(timestamp masked, form echo lines as multisets). Used as a post-step of C04."""
import json
import os
import re
import shutil
import socket
import subprocess
import tempfile
import time


def requests():
    def req(method, target, headers=(), body=b""):
        h = "".join(f"{k}: {v}\r\n" for k, v in headers)
        return f"{method} {target} HTTP/1.1\r\n{h}\r\n".encode() + body
    host = [("Host", "localhost")]
    mp = (b"--XB\r\nContent-Disposition: form-data; name=\"f\"\r\n\r\nvalue\r\n--XB\r\nContent-Disposition: form-data; name=\"g\"; filename=\"g.txt\"\r\n"
          b"Content-Type: text/plain\r\n\r\nsecond\r\n--XB--\r\n")
    out = [
        ("get-file", req("GET", "/file.txt", host)),
        ("get-dir", req("GET", "/dir/", host)),
        ("get-dir-noslash", req("GET", "/dir", host)),
        ("html-fallback", req("GET", "/page", host)),
        ("get-root", req("GET", "/", host)),
        ("get-style", req("GET", "/style.css", host)),
        ("head-file", req("HEAD", "/file.txt", host)),
        ("options-preflight", req("OPTIONS", "/file.txt", host + [("Origin", "https://foo.example"), ("Access-Control-Request-Method", "POST"), ("Access-Control-Request-Headers", "content-type")])),
        ("range-single", req("GET", "/file.txt", host + [("Range", "bytes=2-5")])),
        ("range-open", req("GET", "/file.txt", host + [("Range", "bytes=7-")])),
        ("range-multi", req("GET", "/big.bin", host + [("Range", "bytes=0-9, 100-199, -5")])),
        ("range-416", req("GET", "/file.txt", host + [("Range", "bytes=50-60")])),
        ("range-suffix-too-long", req("GET", "/file.txt", host + [("Range", "bytes=-11")])),
        ("big", req("GET", "/big.bin", host)),
        ("link", req("GET", "/link-small.txt", host)),
        ("form-get", req("GET", "/form-get-method?a=b&c=d%20e", host)),
        ("form-urlencoded", req("POST", "/form-url-encoded-enctype-post-method", host + [("Content-Type", "application/x-www-form-urlencoded")], b"a=b&c=d")),
        ("form-urlencoded-binary", req("POST", "/form-url-encoded-enctype-post-method", host + [("Content-Type", "application/x-www-form-urlencoded")], b"a=\xff\xfe")),
        ("form-multipart", req("POST", "/form-multipart-enctype-post-method", host + [("Content-Type", "multipart/form-data; boundary=XB")], mp)),
        ("form-multipart-no-name", req("POST", "/form-multipart-enctype-post-method", host + [("Content-Type", "multipart/form-data; boundary=XB")], b"--XB\r\nContent-Disposition: attachment\r\n\r\nv\r\n--XB--\r\n")),
        ("upload-initiate", req("POST", "/file-upload/initiate?name=a.txt&size=1&lastModified=2", host)),
        ("missing", req("GET", "/missing", host)),
        ("traversal", req("GET", "/../file.txt", host)),
        ("traversal-deep", req("GET", "/dir/../../etc/passwd", host)),
        ("no-slash-target", b"GET x HTTP/1.1\r\n\r\n"),
        ("empty-target", b"GET  HTTP/1.1\r\n\r\n"),
        ("colon-target", b"GET : HTTP/1.1\r\n\r\n"),
        ("content-length-a", b"GET /file.txt HTTP/1.1\r\nContent-Length: a\r\n\r\n"),
        ("unknown-method", b"NOPE / HTTP/1.1\r\n\r\n"),
        ("unknown-version", b"GET / HTTP/9.9\r\n\r\n"),
        ("not-utf8", b"GET /\xff HTTP/1.1\r\n\r\n"),
        ("header-colon-space", req("GET", "/file.txt", [("X-A", "b: c: d"), ("Origin", "https://a.example")])),
        ("many-header-lines", b"GET /file.txt HTTP/1.1\r\n" + b"a: b\r\n" * 1500 + b"\r\n"),
        ("many-ranges", req("GET", "/four-mib.bin", [("Range", "bytes=" + ",".join(["0-0"] * 600))])),
        ("many-undecodable-header-lines", b"GET /file.txt HTTP/1.1\r\n" + b"\xff\n" * 4900 + b"\r\n"),
        ("content-length-1-tib", req("POST", "/form-url-encoded-enctype-post-method", host + [("Content-Type", "application/x-www-form-urlencoded"), ("Content-Length", "1099511627776")], b"a=b")),
        ("content-length-isize-max", req("POST", "/form-url-encoded-enctype-post-method", host + [("Content-Type", "application/x-www-form-urlencoded"), ("Content-Length", "9223372036854775807")], b"a=b")),
        ("put", req("PUT", "/file.txt", host, b"DATA")),
        ("delete", req("DELETE", "/file.txt", host)),
    ]
    return out


def mask(raw):
    head, sep, body = raw.partition(b"\r\n\r\n")
    head = re.sub(rb"Date-Unix-Epoch-Nanos: \d+", b"Date-Unix-Epoch-Nanos: <masked>", head)
    head = re.sub(rb"Last-Modified-Unix-Epoch-Nanos: \d+", b"Last-Modified-Unix-Epoch-Nanos: <masked>", head)
    return head + sep + body


def canon(name, raw):
    m = mask(raw)
    if name.startswith("form-") or name.startswith("upload"):
        head, sep, body = m.partition(b"\r\n\r\n")
        return head + sep + b"\n".join(sorted(body.split(b"\n")))
    return m


def talk(port, raw, timeout=10, host="127.0.0.1"):
    s = socket.create_connection((host, port), timeout=timeout)
    s.settimeout(timeout)
    s.sendall(raw)
    out = b""
    try:
        while True:
            b = s.recv(1 << 16)
            if not b:
                break
            out += b
    except (socket.timeout, ConnectionResetError):
        pass
    s.close()
    return out


def ipv6_loopback():
    try:
        s = socket.socket(socket.AF_INET6)
        s.bind(("::1", 0))
        s.close()
        return True
    except OSError:
        return False


def run(drv):
    """-> (summary dict, violations [(signature, detail, case)], errors [str]); anything but a clean
    result is taken a second time before it is believed (a loaded machine may be slow). The series is
    run against a listener on 127.0.0.1 and, where the machine has one, on the IPv6 loopback ::1
    (the peer address takes part in request handling: it is parsed again for the log line)."""
    binds = ["127.0.0.1"] + (["::1"] if ipv6_loopback() else [])
    summary, violations, errors = {"binds": binds}, [], []
    for b in binds:
        r = run_once(drv, b)
        if r[1] or r[2]:
            r = run_once(drv, b)
        for k, v in r[0].items():
            summary[k] = summary.get(k, 0) + v
        violations += r[1]
        errors += r[2]
    return summary, violations, errors


def run_once(drv, bind="127.0.0.1"):
    binary = drv.build_rws_binary()
    rwsv = drv.RWSV
    d = tempfile.mkdtemp(prefix="rwsv-conf-")
    proc = None
    violations, errors = [], []
    try:
        root = os.path.join(d, "root")
        subprocess.run([rwsv, "mktree", root], check=True, stdout=subprocess.DEVNULL, stderr=subprocess.DEVNULL)
        reqs = requests()
        # in-process answers
        with open(os.path.join(d, "reqs.json"), "w") as f:
            json.dump([r.hex() for _, r in reqs], f)
        env = {k: v for k, v in os.environ.items() if not k.startswith("RWS_CONFIG_")}
        p = subprocess.run([rwsv, "serve", os.path.join(d, "reqs.json"), os.path.join(d, "inproc.json")], cwd=root, env=env,
                           stdout=subprocess.DEVNULL, stderr=subprocess.DEVNULL)
        if p.returncode != 0:
            return {}, [], [f"in-process serve step failed with {p.returncode}"]
        inproc = [bytes.fromhex(x) if x != "PANIC" else b"PANIC" for x in json.load(open(os.path.join(d, "inproc.json")))]
        # the real binary
        s = socket.socket(socket.AF_INET6 if ":" in bind else socket.AF_INET)
        s.bind((bind, 0))
        port = s.getsockname()[1]
        s.close()
        tag = "" if bind == "127.0.0.1" else f":bind={bind}"
        logf = open(os.path.join(d, "stdout.log"), "wb")
        proc = subprocess.Popen([binary, f"--port={port}", f"--ip={bind}", "--thread-count=3"], cwd=root, env=env, stdout=logf, stderr=subprocess.DEVNULL)
        deadline = time.time() + 15
        while time.time() < deadline:
            try:
                socket.create_connection((bind, port), timeout=0.2).close()
                break
            except OSError:
                time.sleep(0.05)
        same = 0
        for (name, raw), want in zip(reqs, inproc):
            try:
                got = talk(port, raw, host=bind)
            except OSError as e:
                got = b""
                errors.append(f"{name}: {e}")
            if proc.poll() is not None:
                violations.append((f"C04:real-binary:server-process-ended{tag}", f"the server exited with {proc.returncode} while answering {name}", {"engine": "binary", "request": name, "bind": bind}))
                break
            if not got:
                violations.append((f"C04:real-binary:no-answer:{name}{tag}", "the real binary closed the connection without answering", {"engine": "binary", "request": name, "bind": bind}))
                continue
            if canon(name, got) == canon(name, want):
                same += 1
            else:
                errors.append(f"harness and binary ({bind}) disagree on {name}: binary {got[:80]!r} harness {want[:80]!r}")
        # afterwards the server must still answer (capacity: 3 workers, 36 requests incl. every former crasher)
        if proc.poll() is None:
            probe = talk(port, reqs[0][1], host=bind)
            if not probe.startswith(b"HTTP/1.1 200"):
                violations.append((f"C04:real-binary:not-serving-after-the-request-series{tag}", f"probe answer {probe[:60]!r}", {"engine": "binary", "request": "probe", "bind": bind}))
        return {"requests": len(reqs), "identical_answers": same}, violations, errors
    finally:
        if proc is not None and proc.poll() is None:
            proc.kill()
            proc.wait()
        shutil.rmtree(d, ignore_errors=True)
