"""C12: effective settings = command line over config file over environment over defaults.
Enumerates configurations, runs `cfgprobe` (the server's own set_default_values(); bootstrap();
followed by its getters) and the real binary, and compares with a precedence model."""
import itertools
import json
import os
import re
import shutil
import socket
import subprocess
import tempfile
import time
from concurrent.futures import ThreadPoolExecutor

NCPU = os.cpu_count() or 4

# setting -> (env var, short flag, long flag, toml table, toml key, documented default)
SETTINGS = {
    "ip": ("RWS_CONFIG_IP", "i", "ip", "", "ip", "127.0.0.1"),
    "port": ("RWS_CONFIG_PORT", "p", "port", "", "port", "7878"),
    "thread_count": ("RWS_CONFIG_THREAD_COUNT", "t", "thread-count", "", "thread_count", "200"),
    "request_allocation_size": ("RWS_CONFIG_REQUEST_ALLOCATION_SIZE_IN_BYTES", "r", "request-allocation-size-in-bytes", "", "request_allocation_size_in_bytes", "10000"),
    "cors_allow_all": ("RWS_CONFIG_CORS_ALLOW_ALL", "a", "cors-allow-all", "cors", "allow_all", "true"),
    "cors_allow_origins": ("RWS_CONFIG_CORS_ALLOW_ORIGINS", "o", "cors-allow-origins", "cors", "allow_origins", ""),
    "cors_allow_methods": ("RWS_CONFIG_CORS_ALLOW_METHODS", "m", "cors-allow-methods", "cors", "allow_methods", ""),
    "cors_allow_headers": ("RWS_CONFIG_CORS_ALLOW_HEADERS", "h", "cors-allow-headers", "cors", "allow_headers", ""),
    "cors_allow_credentials": ("RWS_CONFIG_CORS_ALLOW_CREDENTIALS", "c", "cors-allow-credentials", "cors", "allow_credentials", ""),
    "cors_expose_headers": ("RWS_CONFIG_CORS_EXPOSE_HEADERS", "e", "cors-expose-headers", "cors", "expose_headers", ""),
    "cors_max_age": ("RWS_CONFIG_CORS_MAX_AGE", "g", "cors-max-age", "cors", "max_age", "86400"),
}
ORDER = list(SETTINGS)

# pairwise distinct valid values per source (env, file, cli)
VALUES = {
    "ip": ("127.0.0.2", "127.0.0.3", "127.0.0.4"),
    "port": ("7101", "7102", "7103"),
    "thread_count": ("3", "4", "5"),
    "request_allocation_size": ("11000", "12000", "13000"),
    "cors_allow_all": ("false", "true", "false"),
    "cors_allow_origins": ("https://env.example", "https://file.example,https://file2.example", "https://cli.example"),
    "cors_allow_methods": ("GET", "POST,PUT", "DELETE"),
    "cors_allow_headers": ("x-env", "x-file,content-type", "x-cli"),
    "cors_allow_credentials": ("true", "false", "true"),
    "cors_expose_headers": ("x-exp-env", "x-exp-file", "x-exp-cli"),
    "cors_max_age": ("101", "102", "103"),
}
LIST_SETTINGS = {"cors_allow_origins", "cors_allow_methods", "cors_allow_headers", "cors_expose_headers"}
NUMERIC = {"port", "thread_count", "request_allocation_size"}


# boundary and degenerate values of each setting's domain (the empty list is the documented
# default of the list settings and a value an operator writes to switch something off)
DOMAIN = {
    "ip": ("0.0.0.0", "::1", "build_host.internal"),
    "port": ("1", "1024", "65534", "65535"),
    "thread_count": ("1", "2", "1000"),
    "request_allocation_size": ("1", "4000", "4001", "1000000"),
    "cors_allow_all": ("true", "false"),
    "cors_allow_origins": ("", "*", "null", "http://web_app:8080"),
    "cors_allow_methods": ("", "*", "X_PURGE"),
    "cors_allow_headers": ("", "*", "x_request_id"),
    "cors_allow_credentials": ("", "true", "false"),
    "cors_expose_headers": ("", "*", "x_trace_id"),
    "cors_max_age": ("0", "1", "4294967295"),
}


def toml_value(setting, value, style="default"):
    if setting in LIST_SETTINGS and style != "string" and value == "":
        return "[]"
    if setting in LIST_SETTINGS and style != "string":
        q = "'" if style == "single" else '"'
        return "[" + ", ".join(f"{q}{v}{q}" for v in value.split(",")) + "]"
    if setting in NUMERIC and style == "default":
        return value
    if setting in ("cors_allow_all", "cors_allow_credentials") and style == "default":
        return value
    q = "'" if style == "single" else '"'
    return f"{q}{value}{q}"


def toml_file(entries, opts=None):
    """entries: list of (setting, value, key_spelling['_'|'-'], value_style). Top-level keys first, then [cors]."""
    opts = opts or {}
    top, cors = [], []
    for setting, value, dash, style in entries:
        table, key = SETTINGS[setting][3], SETTINGS[setting][4]
        if dash == "-":
            key = key.replace("_", "-")
        sp = opts.get("eq", " = ")
        line = f"{opts.get('indent_keys', '')}{key}{sp}{toml_value(setting, value, style)}"
        if opts.get("comments"):
            line += "  # " + setting
        (cors if table == "cors" else top).append(line)
    out = []
    if opts.get("leading_comment"):
        out += ["# rws configuration", ""]
    if opts.get("padding_bytes"):
        # a long commented preamble: the keys start beyond this many bytes
        line = "# " + "x" * 77
        out += [line] * (opts["padding_bytes"] // 80 + 1)
    out += top
    if cors:
        if opts.get("blank_lines", True):
            out.append("")
        hdr = opts.get("cors_header", "[cors]")
        out.append(hdr)
        out += cors
    if opts.get("trailing_table"):
        out += ["", "[unrelated]", "allow_all = 'nonsense'", "port = 1"]
    return "\n".join(out) + "\n"


def expected(case):
    exp = {s: SETTINGS[s][5] for s in ORDER}
    if case.get("expect_override") is not None:
        exp.update(case["expect_override"])
        return exp
    for s, v in case.get("env", {}).items():
        exp[s] = v
    for s, v, _, _ in case.get("file", []):
        exp[s] = v
    for s, v, _ in case.get("cli", []):
        exp[s] = v
    return exp


def cli_args(case):
    if case.get("raw_args") is not None:
        return list(case["raw_args"])
    out = []
    for s, v, form in case.get("cli", []):
        if form == "short":
            out.append(f"-{SETTINGS[s][1]}={v}")
        else:
            out.append(f"--{SETTINGS[s][2]}={v}")
    return out


def clean_env():
    env = {k: v for k, v in os.environ.items() if not k.startswith("RWS_CONFIG_")}
    return env


def materialise(case, d):
    env = clean_env()
    for s, v in case.get("env", {}).items():
        env[SETTINGS[s][0]] = v
    if case.get("file_text") or (case.get("file") is not None and (case.get("file") or case.get("file_opts"))):
        with open(os.path.join(d, "rws.config.toml"), "w") as f:
            f.write(case.get("file_text") or toml_file(case.get("file", []), case.get("file_opts")))
    return env


def run_probe(drv, case):
    d = tempfile.mkdtemp(prefix="rwsv-cfg-")
    try:
        env = materialise(case, d)
        p = subprocess.run([os.path.join(drv.BUILD, "harness", "release", "cfgprobe")] + cli_args(case), cwd=d, env=env,
                           stdout=subprocess.DEVNULL, stderr=subprocess.PIPE, timeout=60)
        for line in p.stderr.decode(errors="replace").splitlines():
            if line.startswith("CFGPROBE "):
                return json.loads(line[9:]), None
        return None, f"cfgprobe exit {p.returncode}: {p.stderr.decode(errors='replace')[-300:]}"
    finally:
        shutil.rmtree(d, ignore_errors=True)


def free_port():
    s = socket.socket()
    s.bind(("127.0.0.1", 0))
    p = s.getsockname()[1]
    s.close()
    return p


def http(ip, port, raw, timeout=3):
    s = socket.create_connection((ip, port), timeout=timeout)
    s.settimeout(timeout)
    s.sendall(raw)
    out = b""
    try:
        while True:
            b = s.recv(65536)
            if not b:
                break
            out += b
    except socket.timeout:
        pass
    s.close()
    return out


def run_binary(drv, binary, case):
    """Observe the effective settings through the running server: start-up lines, CORS headers,
    buffer size echoed by POST /file-upload/initiate."""
    case = json.loads(json.dumps(case))
    exp = expected(case)
    # the port must be free: if the case does not set it, give it through the lowest-priority source
    # that does not interfere (environment) unless the case is about the port
    port_sources = [k for k in ("env", "file", "cli") if any((x if isinstance(x, str) else x[0]) == "port" for x in (case.get(k) or []))]
    remap = {}
    if port_sources:
        for idx, src in enumerate(("env", "file", "cli")):
            remap[VALUES["port"][idx]] = str(free_port())
        if "port" in case.get("env", {}):
            case["env"]["port"] = remap[case["env"]["port"]]
        case["file"] = [(s, remap.get(v, v) if s == "port" else v, d, st) for s, v, d, st in case.get("file", [])]
        case["cli"] = [(s, remap.get(v, v) if s == "port" else v, f) for s, v, f in case.get("cli", [])]
    else:
        case.setdefault("env", {})["port"] = str(free_port())
    exp = expected(case)
    d = tempfile.mkdtemp(prefix="rwsv-cfgbin-")
    proc = None
    try:
        env = materialise(case, d)
        logf = open(os.path.join(d, "stdout.log"), "wb")
        proc = subprocess.Popen([binary] + cli_args(case), cwd=d, env=env, stdout=logf, stderr=subprocess.DEVNULL)
        obs = {}
        deadline = time.time() + 15
        text = ""
        while time.time() < deadline:
            with open(os.path.join(d, "stdout.log"), "rb") as f:
                text = f.read().decode(errors="replace")
            if "thread(s)" in text or proc.poll() is not None:
                break
            time.sleep(0.02)
        m = re.search(r"Setting up http://(\[?[0-9a-fA-F.:]+\]?):(\d+)", text)
        if m:
            obs["ip"], obs["port"] = m.group(1), m.group(2)
        m = re.search(r"Spawned (\d+) thread", text)
        if m:
            obs["thread_count"] = m.group(1)
        if proc.poll() is not None:
            return obs, exp, f"server exited with {proc.returncode}: {text[-300:]}"
        ip, port = exp["ip"], int(exp["port"])
        origin = (exp["cors_allow_origins"].split(",")[0] or "https://probe.example") if exp["cors_allow_all"] != "true" else "https://probe.example"
        r = http(ip, port, f"OPTIONS / HTTP/1.1\r\nHost: x\r\nOrigin: {origin}\r\nAccess-Control-Request-Method: POST\r\nAccess-Control-Request-Headers: X-Asked\r\n\r\n".encode())
        hdr = {}
        for line in r.split(b"\r\n\r\n")[0].decode(errors="replace").split("\r\n")[1:]:
            if ": " in line:
                k, v = line.split(": ", 1)
                hdr[k.lower()] = v
        obs["acao"] = hdr.get("access-control-allow-origin")
        obs["acac"] = hdr.get("access-control-allow-credentials")
        obs["acam"] = hdr.get("access-control-allow-methods")
        obs["acah"] = hdr.get("access-control-allow-headers")
        obs["aceh"] = hdr.get("access-control-expose-headers")
        obs["acma"] = hdr.get("access-control-max-age")
        r = http(ip, port, b"POST /file-upload/initiate?name=a&size=1&lastModified=1 HTTP/1.1\r\nHost: x\r\n\r\n")
        m = re.search(rb"request_allocation_size_in_bytes is (\d+)", r)
        if m:
            obs["request_allocation_size_minus_4000"] = m.group(1).decode()
        return obs, exp, None
    finally:
        if proc is not None and proc.poll() is None:
            proc.kill()
            proc.wait()
        shutil.rmtree(d, ignore_errors=True)


def judge_binary(obs, exp):
    """-> list of (setting, observed, expected)"""
    bad = []
    def chk(setting, got, want):
        if got != want:
            bad.append((setting, got, want))
    chk("ip", obs.get("ip"), exp["ip"])
    chk("port", obs.get("port"), exp["port"])
    chk("thread_count", obs.get("thread_count"), exp["thread_count"])
    size = int(exp["request_allocation_size"])
    chk("request_allocation_size", obs.get("request_allocation_size_minus_4000"), str(size - 4000 if size > 4000 else size))
    if exp["cors_allow_all"] == "true":
        chk("cors_allow_all", obs.get("acao"), "https://probe.example")
        chk("cors_allow_all", obs.get("acac"), "true")
    else:
        first = exp["cors_allow_origins"].split(",")[0]
        if first:
            chk("cors_allow_origins", obs.get("acao"), first)
            chk("cors_allow_methods", obs.get("acam"), exp["cors_allow_methods"])
            chk("cors_allow_headers", obs.get("acah"), exp["cors_allow_headers"].lower())
            chk("cors_expose_headers", obs.get("aceh"), exp["cors_expose_headers"].lower())
            chk("cors_max_age", obs.get("acma"), exp["cors_max_age"])
            chk("cors_allow_credentials", obs.get("acac"), "true" if exp["cors_allow_credentials"] == "true" else None)
        else:
            chk("cors_allow_origins", obs.get("acao"), None)
    return bad


def cases(tier):
    out = []
    # 1. every setting x every subset of {env, file, cli}
    for s in ORDER:
        for subset in itertools.product([0, 1], repeat=3):
            c = {"family": "precedence", "setting": s, "env": {}, "file": [], "cli": []}
            if subset[0]:
                c["env"][s] = VALUES[s][0]
            if subset[1]:
                c["file"].append((s, VALUES[s][1], "_", "default"))
            if subset[2]:
                c["cli"].append((s, VALUES[s][2], "long"))
            out.append(c)
    # 2. independence: every ordered pair of settings x each source for the first
    for s1 in ORDER:
        for s2 in ORDER:
            if s1 == s2:
                continue
            for src in range(3):
                c = {"family": "independence", "setting": s1, "other": s2, "env": {}, "file": [], "cli": []}
                if src == 0:
                    c["env"][s1] = VALUES[s1][0]
                elif src == 1:
                    c["file"].append((s1, VALUES[s1][1], "_", "default"))
                else:
                    c["cli"].append((s1, VALUES[s1][2], "long"))
                # the second setting comes from a different source
                if src == 2:
                    c["env"][s2] = VALUES[s2][0]
                else:
                    c["cli"].append((s2, VALUES[s2][2], "short"))
                out.append(c)
    # 3. every spelling of every setting
    for s in ORDER:
        out.append({"family": "spelling", "setting": s, "spelling": "short flag", "env": {}, "file": [], "cli": [(s, VALUES[s][2], "short")]})
        out.append({"family": "spelling", "setting": s, "spelling": "long flag", "env": {}, "file": [], "cli": [(s, VALUES[s][2], "long")]})
        out.append({"family": "spelling", "setting": s, "spelling": "variable", "env": {s: VALUES[s][0]}, "file": [], "cli": []})
        for dash in ("_", "-"):
            for style in ("default", "single", "double") + (("string",) if s in LIST_SETTINGS else ()):
                out.append({"family": "spelling", "setting": s, "spelling": f"toml key with '{dash}', value style {style}", "env": {}, "file": [(s, VALUES[s][1], dash, style)], "cli": []})
    # 4. config file syntax: key order (all permutations of 3 top-level and 3 cors keys), comments, blank lines,
    #    spacing, indentation, a later unrelated table
    tops = ["ip", "thread_count", "request_allocation_size"]
    cors = ["cors_allow_all", "cors_allow_origins", "cors_max_age"]
    opt_sets = [
        {}, {"comments": True}, {"leading_comment": True}, {"eq": "="}, {"eq": "   =   "}, {"blank_lines": False}, {"trailing_table": True},
        {"cors_header": "[cors] # cross origin"}, {"cors_header": "  [cors]"}, {"cors_header": "[ cors ]"}, {"cors_header": "\t[cors]"}, {"cors_header": "  [cors] # indented"},
        {"indent_keys": "  "}, {"indent_keys": "\t"}, {"comments": True, "eq": "=", "cors_header": "  [cors]", "indent_keys": "    "},
        {"padding_bytes": 1000}, {"padding_bytes": 4096}, {"padding_bytes": 8192}, {"padding_bytes": 70000},
    ]
    for perm_t in itertools.permutations(tops):
        for perm_c in itertools.permutations(cors):
            for oi, opts in enumerate(opt_sets):
                if tier != "thorough" and oi > 0 and (perm_t != tuple(tops) or perm_c != tuple(cors)):
                    continue
                entries = [(s, VALUES[s][1], "_", "default") for s in perm_t] + [(s, VALUES[s][1], "_", "default") for s in perm_c]
                out.append({"family": "file-syntax", "order": list(perm_t) + list(perm_c), "file_opts": opts, "env": {}, "file": entries, "cli": []})
    # 5. everything at once from every source
    out.append({"family": "all", "env": {s: VALUES[s][0] for s in ORDER}, "file": [(s, VALUES[s][1], "_", "default") for s in ORDER], "cli": [(s, VALUES[s][2], "long") for s in ORDER]})
    out.append({"family": "all", "env": {s: VALUES[s][0] for s in ORDER}, "file": [(s, VALUES[s][1], "-", "double") for s in ORDER], "cli": []})
    out.append({"family": "all", "env": {s: VALUES[s][0] for s in ORDER}, "file": [], "cli": [(s, VALUES[s][2], "short") for s in ORDER]})
    # 6. the domain of each setting: every boundary / degenerate value from each source alone, and
    #    from each source over an ordinary value of every lower-priority source
    for s in ORDER:
        for b in DOMAIN[s]:
            for hi in range(3):
                for lo in [None] + list(range(hi)):
                    c = {"family": "value-domain", "setting": s, "value": b, "env": {}, "file": [], "cli": []}
                    def put(src, v):
                        if src == 0:
                            c["env"][s] = v
                        elif src == 1:
                            c["file"].append((s, v, "_", "default"))
                        else:
                            c["cli"].append((s, v, "long"))
                    put(hi, b)
                    if lo is not None:
                        put(lo, VALUES[s][lo])
                    c["sources"] = f"{('environment', 'config-file', 'command-line')[hi]}" + (f" over {('environment', 'config-file', 'command-line')[lo]}" if lo is not None else "")
                    out.append(c)
    out += documented_cases()
    return out


def documented_cases():
    """The configuration examples the repository ships are documentation: every spelling they use
    must reach its setting. rws.command_line (two command lines), rws.config.toml, rws.variables."""
    out = []
    long_to_setting = {v[2]: k for k, v in SETTINGS.items()}
    short_to_setting = {v[1]: k for k, v in SETTINGS.items()}
    env_to_setting = {v[0]: k for k, v in SETTINGS.items()}
    try:
        for n, line in enumerate(open("/repo/rws.command_line").read().splitlines()):
            if not line.startswith("rws "):
                continue
            args = line.split()[1:]
            exp = {}
            for a in args:
                if "=" not in a:
                    continue
                name, value = a.split("=", 1)
                if name.startswith("--"):
                    s_ = long_to_setting.get(name[2:].replace("_", "-"))
                else:
                    s_ = short_to_setting.get(name[1:])
                if s_:
                    exp[s_] = value
            out.append({"family": "documented", "document": f"rws.command_line line {n + 1}", "env": {}, "file": [], "cli": [], "raw_args": args, "expect_override": exp})
    except OSError:
        pass
    try:
        text = open("/repo/rws.config.toml").read()
        exp, table = {}, ""
        for line in text.splitlines():
            line = line.split("#", 1)[0].strip()
            if line.startswith("["):
                table = line.strip("[] \t")
                continue
            if "=" not in line:
                continue
            k, v = [x.strip() for x in line.split("=", 1)]
            key = (table + "_" if table else "") + k.replace("-", "_")
            key = {"request_allocation_size_in_bytes": "request_allocation_size"}.get(key, key)
            if v.startswith("["):
                v = ",".join(x.strip().strip("'\"") for x in v.strip("[]").split(","))
            else:
                v = v.strip("'\"")
            if key in SETTINGS:
                exp[key] = v
        out.append({"family": "documented", "document": "rws.config.toml", "env": {}, "file": [], "cli": [], "file_text": text, "file_opts": {"shipped": True}, "expect_override": exp})
    except OSError:
        pass
    try:
        exp, env = {}, {}
        for line in open("/repo/rws.variables").read().splitlines():
            m = re.match(r'^export (\w+)="(.*)"$', line.strip())
            if m and m.group(1) in env_to_setting:
                exp[env_to_setting[m.group(1)]] = m.group(2)
        out.append({"family": "documented", "document": "rws.variables", "env": dict(exp), "file": [], "cli": [], "expect_override": exp})
    except OSError:
        pass
    return out


def sig_probe(case, setting, got, want):
    if case["family"] == "documented":
        return f"C12:documented-spelling-does-not-reach-its-setting:{case['document'].split(' line')[0]}:{setting}"
    fam = case["family"]
    src_got = "?"
    if got == SETTINGS[setting][5]:
        src_got = "default"
    for i, n in enumerate(("environment", "config-file", "command-line")):
        if got == VALUES[setting][i]:
            src_got = n
    src_want = "default"
    for i, n in enumerate(("environment", "config-file", "command-line")):
        if want == VALUES[setting][i]:
            src_want = n
    if fam == "value-domain":
        shown = case["value"] if case["value"] != "" else "<empty>"
        return f"C12:value-of-the-domain-not-effective:{setting}={shown}:{src_got}-instead"
    if fam == "spelling":
        return f"C12:spelling-does-not-reach-its-setting:{setting}:{case['spelling'].split(',')[0]}"
    if fam == "independence" and setting not in (case.get("setting"),):
        return f"C12:setting-changed-by-another:{setting}"
    if fam == "file-syntax":
        kind = ",".join(sorted(k for k in case.get("file_opts", {}))) or "key-order"
        return f"C12:config-file-syntax:{kind}:{setting}:{src_got}-instead-of-{src_want}"
    return f"C12:precedence:{setting}:{src_got}-instead-of-{src_want}"


def run(drv, prop, tier, cfg, t0):
    drv.build_harness()
    binary = drv.build_rws_binary()
    cs = cases(tier)
    known = drv.load_known()
    errors, failures = [], {}
    outcomes = {}

    def one(case):
        got, err = run_probe(drv, case)
        return case, got, err

    with ThreadPoolExecutor(max_workers=NCPU) as ex:
        results = list(ex.map(one, cs))
    samples = []
    nontrivial = 0
    for case, got, err in results:
        if err:
            errors.append(err)
            continue
        exp = expected(case)
        if case["env"] or case["file"] or case["cli"] or case.get("raw_args") or case.get("file_text"):
            nontrivial += 1
        if len(samples) < 6 and case["family"] not in [s["family"] for s in samples]:
            samples.append({k: v for k, v in case.items() if k != "file_text"})
        bad = [(s, got.get(s), exp[s]) for s in ORDER if got.get(s) != exp[s]]
        outcomes[f"probe:{case['family']}:{'as-expected' if not bad else 'differs'}"] = outcomes.get(f"probe:{case['family']}:{'as-expected' if not bad else 'differs'}", 0) + 1
        for s, g, w in bad:
            sig = sig_probe(case, s, g, w)
            failures.setdefault(sig, []).append(dict(signature=sig, case=dict(engine="config", via="cfgprobe", **case), detail=f"{s}: effective {g!r}, expected {w!r}"))
    # the real binary: precedence and spelling families (+ 'all')
    bin_cases = [c for c in cs if c["family"] in ("precedence", "spelling", "all")]
    if tier != "thorough":
        bin_cases = [c for c in bin_cases if c["family"] != "spelling" or "double" not in c.get("spelling", "")]

    def one_bin(case):
        # a loaded machine may be slow: an observation that looks wrong is taken a second time
        last = None
        for attempt in range(2):
            try:
                obs, exp, err = run_binary(drv, binary, case)
            except Exception as e:  # connection refused etc. -> reported as an observation problem
                obs, exp, err = {}, expected(case), f"{type(e).__name__}: {e}"
            last = (case, obs, exp, err)
            if not err and not judge_binary(obs, exp):
                break
            time.sleep(0.5)
        return last

    with ThreadPoolExecutor(max_workers=8) as ex:
        bres = list(ex.map(one_bin, bin_cases))
    bin_nontrivial = 0
    for case, obs, exp, err in bres:
        if err:
            sig = f"C12:real-binary:not-reachable-with-the-expected-settings:{case.get('setting','all')}"
            failures.setdefault(sig, []).append(dict(signature=sig, case=dict(engine="config", via="binary", **case), detail=err))
            continue
        bin_nontrivial += 1
        bad = judge_binary(obs, exp)
        outcomes[f"binary:{case['family']}:{'as-expected' if not bad else 'differs'}"] = outcomes.get(f"binary:{case['family']}:{'as-expected' if not bad else 'differs'}", 0) + 1
        for s, g, w in bad:
            sig = f"C12:real-binary:{case['family']}:{s}"
            failures.setdefault(sig, []).append(dict(signature=sig, case=dict(engine="config", via="binary", **case), detail=f"{s}: observed {g!r}, expected {w!r}"))
    violations, known_hits = [], []
    for sig in sorted(failures):
        fl = sorted(failures[sig], key=lambda f: len(json.dumps(f["case"])))
        f = fl[0]
        if (prop, sig) in known:
            known_hits.append((sig, known[(prop, sig)], len(fl), f))
            continue
        path = drv.write_replay(prop, f)
        d = json.load(open(path))
        d["engine"] = "config"
        json.dump(d, open(path, "w"), indent=1, sort_keys=True)
        if replay_case(drv, binary, f["case"]):
            violations.append((sig, path, len(fl), f))
        else:
            errors.append(f"failure {sig} did not reproduce from {path}")
    wall = time.time() - t0
    cov = {
        "evaluations": len(results) + len(bres),
        "distinct_nontrivial": nontrivial + bin_nontrivial,
        "rule": "one case = (environment, rws.config.toml, command line) for one fresh process; executed through cfgprobe (the server's set_default_values(); bootstrap(); and getters) and, for the precedence / spelling / all families, through the real binary (start-up lines, CORS preflight answer, buffer size echo); non-trivial = at least one source supplies a value and the effective settings were read back",
        "samples": samples,
        "exhaustive": not errors,
        "outcomes": outcomes,
        "distinct_outcomes": len(outcomes),
        "bounds": {"settings": ORDER, "precedence": "11 settings x 8 subsets of {environment, config file, command line}", "independence": "every ordered pair of settings x 3 sources for the first, the second supplied from another source", "spellings": "short flag, long flag, variable, TOML key with _ and with -, value bare / single / double quoted / array", "file_syntax": "all 36 orders of 3 top-level and 3 [cors] keys; comments, leading comment, spacing around =, no blank lines, indented and commented [cors] header, indented keys, a later unrelated table (all orders x all options in thorough)"},
        "known_findings_hit": [dict(signature=s, cases=c) for s, _, c, _ in known_hits],
        "violating_signatures": [dict(signature=s, cases=c, replay=p) for s, p, c, _ in violations],
    }
    ev = {"property_id": prop, "tier": tier, "seed": drv.seed(), "level": "exploration", "coverage": cov,
          "assumptions": ["values are valid for their setting and pairwise distinct per source (booleans excepted: adjacent sources differ)",
                          "the real binary is observed through what it prints at start-up and answers on the wire; settings it exposes nowhere else are read back through cfgprobe, which runs the same bootstrap code"],
          "wall_s": round(wall, 3), "violations": len(violations), "machinery_errors": errors[:20]}
    os.makedirs(os.path.join(drv.VERIF, "evidence"), exist_ok=True)
    json.dump(ev, open(os.path.join(drv.VERIF, "evidence", f"{prop}.json"), "w"), indent=1, sort_keys=True)
    drv.log(f"[{prop}] tier={tier} probe_cases={len(results)} binary_cases={len(bres)} outcomes={len(outcomes)} wall={wall:.1f}s")
    for sig, entry, count, f in known_hits:
        drv.log(f"KNOWN-FINDING: property={prop} {sig} ({count} cases) - {entry.get('explanation','')[:160]}")
    for sig, path, count, f in violations:
        drv.log(f"VIOLATION property={prop} replay={path}")
        drv.log(f"  signature={sig} cases={count} detail={f['detail'][:300]}")
    if violations:
        for e in errors[:5]:
            drv.log(f"NOTE property={prop} (not part of the verdict) {e[:300]}")
        return 1
    if errors:
        for e in errors[:10]:
            drv.log(f"MACHINERY-ERROR property={prop} {e[:400]}")
        return 2
    return 0


def replay_case(drv, binary, case):
    """True if the case still fails."""
    if case.get("family") == "documented":
        # a documented example is re-read from the repository: the defect is in what the document says
        cur = [c for c in documented_cases() if c["document"] == case.get("document")]
        if not cur:
            return False
        via = case.get("via")
        case = dict(cur[0])
        case["via"] = via
    case = {k: v for k, v in case.items() if k not in ("engine",)}
    case["file"] = [tuple(x) for x in case.get("file", [])]
    case["cli"] = [tuple(x) for x in case.get("cli", [])]
    if case.get("via") == "binary":
        try:
            obs, exp, err = run_binary(drv, binary, case)
        except Exception as e:
            return True
        return bool(err) or bool(judge_binary(obs, exp))
    got, err = run_probe(drv, case)
    if err:
        return False
    exp = expected(case)
    return any(got.get(s) != exp[s] for s in ORDER)


def replay(drv, path, d):
    drv.build_harness()
    binary = drv.build_rws_binary()
    failing = replay_case(drv, binary, d["case"])
    drv.log(f"replay {path}: {'still fails' if failing else 'passes'}")
    if failing:
        drv.log(f"VIOLATION property={d.get('property')} replay={path}")
        return 1
    return 0
