"""C07: the real thread pool under loom. Scenarios run as separate processes of
/verif/loomcheck (one loom exploration each), in parallel."""
import json
import os
import subprocess
import time
from concurrent.futures import ThreadPoolExecutor

NCPU = os.cpu_count() or 4


def binary(drv):
    return os.path.join(drv.BUILD, "loom", "release", "loomcheck")


def build(drv):
    drv.cargo_build(drv.LOOMCHECK, "loom", ["--release"], "loomcheck (thread pool under loom)")


def scenarios(tier):
    s = []
    B = 2
    for n, ms in ((1, range(0, 5)), (2, range(0, 5)), (3, range(0, 6))):
        for m in ms:
            s.append(("exactly_once", n, m, B, 120))
    for n, m in ((1, 0), (1, 1), (2, 0), (2, 1), (2, 2), (3, 0), (3, 1)):
        s.append(("rendezvous", n, m, B, 120))
    for n, m in ((2, 1), (2, 2), (2, 3), (3, 1), (3, 2)):
        s.append(("slow_task", n, m, B, 120))
    for n, m in ((1, 1), (2, 1), (2, 2), (3, 1)):
        s.append(("two_submitters", n, m, B, 120))
    for n, m in ((1, 2), (1, 3), (2, 3)):
        s.append(("at_most_n", n, m, B, 120))
    for n, m in ((1, 1), (1, 2), (1, 3), (2, 1)):
        s.append(("exactly_once", n, m, None, 120))
    if tier == "thorough":
        for n, ms in ((1, range(0, 5)), (2, range(0, 5)), (3, range(0, 4))):
            for m in ms:
                s.append(("exactly_once", n, m, 3, 900))
        for n, m in ((2, 0), (2, 1), (2, 2), (3, 0)):
            s.append(("rendezvous", n, m, 3, 900))
        for n, m in ((2, 1), (2, 2), (3, 1)):
            s.append(("slow_task", n, m, 3, 900))
        for n, m in ((2, 1), (2, 2)):
            s.append(("two_submitters", n, m, 3, 900))
        for n, m in ((1, 2), (1, 3), (1, 4), (2, 3), (2, 4), (3, 4)):
            s.append(("at_most_n", n, m, 3, 900))
        for m in (0, 1, 2, 3, 4):
            s.append(("exactly_once", 4, m, 2, 900))
        s.append(("rendezvous", 4, 0, 2, 900))
        s.append(("slow_task", 4, 2, 2, 900))
        for sc, n, m in (("exactly_once", 2, 2), ("rendezvous", 2, 0), ("slow_task", 2, 1), ("exactly_once", 1, 4)):
            s.append((sc, n, m, None, 900))
    return s


def run_one(drv, sc):
    name, n, m, bound, cap = sc
    cmd = [binary(drv), name, str(n), str(m), "none" if bound is None else str(bound), str(cap)]
    t = time.time()
    try:
        p = subprocess.run(cmd, stdout=subprocess.DEVNULL, stderr=subprocess.PIPE, timeout=cap + 120)
        err = p.stderr.decode(errors="replace")
        rc = p.returncode
    except subprocess.TimeoutExpired:
        return dict(sc=sc, rc="timeout", result=None, tail="loomcheck did not stop at its own cap", wall=time.time() - t)
    res = None
    for line in err.splitlines():
        if line.startswith("RESULT "):
            res = json.loads(line[7:])
    interesting = [l for l in err.splitlines() if "panicked" in l or "deadlock" in l.lower() or "assert" in l or "executed" in l or "running at once" in l]
    return dict(sc=sc, rc=rc, result=res, tail="\n".join(interesting[-6:])[:1500], wall=time.time() - t)


def sig_of(r):
    name, n, m, bound, _ = r["sc"]
    tail = r["tail"].lower()
    if "more tasks running at once" in tail:
        kind = "more-tasks-at-once-than-workers"
    elif "deadlock" in tail:
        kind = "deadlock"
    elif "executed twice" in tail or "exactly once" in tail:
        kind = "task-not-executed-exactly-once"
    elif "panicked" in tail:
        kind = "panic"
    else:
        kind = "abnormal-exit"
    return f"C07:{name}:{kind}"


def run(drv, prop, tier, cfg, t0):
    build(drv)
    scs = scenarios(tier)
    with ThreadPoolExecutor(max_workers=NCPU) as ex:
        results = list(ex.map(lambda sc: run_one(drv, sc), scs))
    known = drv.load_known()
    errors, failures = [], {}
    executions = events = 0
    samples, per, capped = [], [], []
    for r in results:
        name, n, m, bound, cap = r["sc"]
        if r["result"] is not None and r["rc"] == 0:
            executions += r["result"]["executions"]
            events += r["result"]["events"]
            per.append(dict(scenario=name, workers=n, tasks=m, preemption_bound=bound, executions=r["result"]["executions"],
                            sync_events=r["result"]["events"], seconds=r["result"]["seconds"], complete=not r["result"]["capped"]))
            if r["result"]["capped"]:
                capped.append(f"{name}(N={n},M={m},bound={bound})")
        elif r["rc"] == "timeout":
            errors.append(f"scenario {name} N={n} M={m} bound={bound}: {r['tail']}")
        else:
            f = dict(signature=sig_of(r), case=dict(scenario=name, workers=n, tasks=m, preemption_bound=bound),
                     detail=r["tail"] or f"exit {r['rc']}")
            failures.setdefault(f["signature"], []).append(f)
    violations, known_hits = [], []
    for sig in sorted(failures):
        fl = sorted(failures[sig], key=lambda f: (f["case"]["workers"], f["case"]["tasks"], f["case"]["preemption_bound"] or 99))
        f = fl[0]
        if (prop, sig) in known:
            known_hits.append((sig, known[(prop, sig)], len(fl), f))
            continue
        path = drv.write_replay(prop, dict(f, case=dict(f["case"], engine="loom")))
        # the exploration is deterministic: re-running the scenario stops at the same failing execution
        d = json.load(open(path))
        d["engine"] = "loom"
        json.dump(d, open(path, "w"), indent=1, sort_keys=True)
        rr = run_one(drv, (f["case"]["scenario"], f["case"]["workers"], f["case"]["tasks"], f["case"]["preemption_bound"], 300))
        if rr["rc"] == 0:
            errors.append(f"failure {sig} did not reproduce when the scenario was explored again")
            continue
        violations.append((sig, path, len(fl), f))
    wall = time.time() - t0
    complete = [p for p in per if p["complete"]]
    cov = {
        "states": executions,
        "transitions": events,
        "traces_validated_against_impl": executions,
        "samples": per[:3] + per[-3:],
        "evaluations": len(results),
        "distinct_nontrivial": len([p for p in per if p["workers"] >= 2 and p["tasks"] >= 1]),
        "rule": "one loom exploration per (scenario, workers N, tasks M, preemption bound); states = complete executions (distinct schedules after loom's partial-order reduction), transitions = synchronisation events (lock, channel send/recv, hook points) over all executions; every execution runs the real thread_pool/mod.rs, so every explored trace is an implementation trace. A scenario is non-trivial when N >= 2 and M >= 1 (threads can actually interleave on the queue)",
        "exhaustive": not capped and not errors,
        "scenarios": per,
        "scenarios_stopped_at_their_time_cap": capped,
        "intercepted": ["thread::Builder::spawn (loom::thread)", "Arc (loom::sync::Arc)", "Mutex::lock/unlock (loom::sync::Mutex)", "channel send/recv (loom::sync::mpsc behind a disconnect-aware wrapper)", "the tasks' own atomics, mutexes and condvars (loom::sync)"],
        "bounds": {"workers": sorted({p["workers"] for p in per}), "tasks": sorted({p["tasks"] for p in per}),
                   "preemption_bounds": sorted({str(p["preemption_bound"]) for p in per})},
        "known_findings_hit": [dict(signature=s, cases=c) for s, _, c, _ in known_hits],
        "violating_signatures": [dict(signature=s, cases=c, replay=p) for s, p, c, _ in violations],
    }
    ev = {"property_id": prop, "tier": tier, "seed": drv.seed(), "level": "model_checking", "coverage": cov,
          "assumptions": ["memory-ordering effects below the std primitives loom models are not explored",
                          "pool sizes above 4 are not explored (loom's thread limit); nothing in the pool depends on N beyond the spawn loop",
                          "under loom a worker leaves its loop when the channel is disconnected (verif_hooks::exit_on_disconnect), production keeps looping"],
          "wall_s": round(wall, 3), "violations": len(violations), "machinery_errors": errors}
    os.makedirs(os.path.join(drv.VERIF, "evidence"), exist_ok=True)
    json.dump(ev, open(os.path.join(drv.VERIF, "evidence", f"{prop}.json"), "w"), indent=1, sort_keys=True)
    drv.log(f"[{prop}] tier={tier} scenarios={len(results)} executions={executions} sync_events={events} capped={len(capped)} wall={wall:.1f}s")
    for sig, entry, count, f in known_hits:
        drv.log(f"KNOWN-FINDING: property={prop} {sig} ({count} scenarios) - {entry.get('explanation','')[:160]}")
    for sig, path, count, f in violations:
        drv.log(f"VIOLATION property={prop} replay={path}")
        drv.log(f"  signature={sig} scenarios={count} first={json.dumps(f['case'])} detail={f['detail'][:300]}")
    if violations:
        for e in errors[:5]:
            drv.log(f"NOTE property={prop} (not part of the verdict) {e[:300]}")
        return 1
    if errors:
        for e in errors[:10]:
            drv.log(f"MACHINERY-ERROR property={prop} {e[:400]}")
        return 2
    if capped and tier == "quick":
        drv.log(f"MACHINERY-ERROR property={prop} quick scenarios hit their time cap: {capped}")
        return 2
    return 0


def replay(drv, path, d):
    build(drv)
    c = d["case"]
    r = run_one(drv, (c["scenario"], c["workers"], c["tasks"], c["preemption_bound"], 300))
    drv.log(f"replay {path}: rc={r['rc']} {r['tail'][:300]}")
    if r["rc"] == 0:
        return 0
    drv.log(f"VIOLATION property={d.get('property')} replay={path}")
    return 1
