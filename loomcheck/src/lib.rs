//! loomcheck: the real `src/thread_pool/mod.rs` of rws compiled against loom.
#![allow(dead_code, unused_imports)]

#[path = "/repo/src/thread_pool/mod.rs"]
pub mod thread_pool;
pub mod verif_hooks;
