//! loomcheck <scenario> <N workers> <M tasks> <preemption bound | none> [max seconds]
//! Prints one RESULT line (JSON). Exit 0: every explored execution satisfied the scenario's
//! assertions; loom panics (exit != 0) on a lost / duplicated task or a deadlock.

use loom::sync::atomic::{AtomicUsize, Ordering};
use loom::sync::{Arc, Condvar, Mutex};
use loomcheck::thread_pool::ThreadPool;
use loomcheck::verif_hooks::EVENTS;
use std::sync::atomic::{AtomicU64, Ordering as StdOrdering};

static EXECUTIONS: AtomicU64 = AtomicU64::new(0);

struct Latch {
    m: Mutex<usize>,
    cv: Condvar,
}
impl Latch {
    fn new() -> Arc<Latch> {
        Arc::new(Latch { m: Mutex::new(0), cv: Condvar::new() })
    }
    fn arrive(&self) {
        let mut g = self.m.lock().unwrap();
        *g += 1;
        self.cv.notify_all();
    }
    fn wait_for(&self, n: usize) {
        let mut g = self.m.lock().unwrap();
        while *g < n {
            g = self.cv.wait(g).unwrap();
        }
    }
    fn arrive_and_wait(&self, n: usize) {
        let mut g = self.m.lock().unwrap();
        *g += 1;
        self.cv.notify_all();
        while *g < n {
            g = self.cv.wait(g).unwrap();
        }
    }
}

/// (a) M instant tasks: every task runs exactly once
fn exactly_once(n: usize, m: usize) {
    let pool = ThreadPool::new(n);
    let counters: Vec<Arc<AtomicUsize>> = (0..m).map(|_| Arc::new(AtomicUsize::new(0))).collect();
    let done = Latch::new();
    for c in &counters {
        let c = c.clone();
        let done = done.clone();
        pool.execute(move || {
            let before = c.fetch_add(1, Ordering::SeqCst);
            assert_eq!(before, 0, "task executed twice");
            done.arrive();
        });
    }
    done.wait_for(m); // a lost task leaves the submitter blocked: loom reports the deadlock
    for c in &counters {
        assert_eq!(c.load(Ordering::SeqCst), 1, "task not executed exactly once");
    }
    drop(pool);
}

/// (b) N tasks that meet at a rendezvous of N: terminates only if N tasks run at the same time
fn rendezvous(n: usize, extra: usize) {
    let pool = ThreadPool::new(n);
    let meet = Latch::new();
    let done = Latch::new();
    for _ in 0..n {
        let meet = meet.clone();
        let done = done.clone();
        pool.execute(move || {
            meet.arrive_and_wait(n);
            done.arrive();
        });
    }
    for _ in 0..extra {
        let done = done.clone();
        pool.execute(move || done.arrive());
    }
    done.wait_for(n + extra);
    drop(pool);
}

/// (c) one slow task that can finish only after M instant tasks have finished: a slow task
/// may occupy one worker only
fn slow_task(n: usize, m: usize) {
    let pool = ThreadPool::new(n);
    let instant_done = Latch::new();
    let done = Latch::new();
    {
        let instant_done = instant_done.clone();
        let done = done.clone();
        pool.execute(move || {
            instant_done.wait_for(m);
            done.arrive();
        });
    }
    for _ in 0..m {
        let instant_done = instant_done.clone();
        let done = done.clone();
        pool.execute(move || {
            instant_done.arrive();
            done.arrive();
        });
    }
    done.wait_for(m + 1);
    drop(pool);
}

/// (d) tasks submitted from a second thread while the first submitter is still submitting
/// (two connections accepted back to back): shares the pool through an Arc
fn two_submitters(n: usize, m: usize) {
    let pool = Arc::new(ThreadPool::new(n));
    let done = Latch::new();
    let counters: Vec<Arc<AtomicUsize>> = (0..2 * m).map(|_| Arc::new(AtomicUsize::new(0))).collect();
    let p2 = pool.clone();
    let d2 = done.clone();
    let c2: Vec<Arc<AtomicUsize>> = counters[m..].to_vec();
    let h = loom::thread::spawn(move || {
        for c in c2 {
            let d = d2.clone();
            p2.execute(move || {
                assert_eq!(c.fetch_add(1, Ordering::SeqCst), 0, "task executed twice");
                d.arrive();
            });
        }
    });
    for c in counters[..m].iter().cloned() {
        let d = done.clone();
        pool.execute(move || {
            assert_eq!(c.fetch_add(1, Ordering::SeqCst), 0, "task executed twice");
            d.arrive();
        });
    }
    h.join().unwrap();
    done.wait_for(2 * m);
    for c in &counters {
        assert_eq!(c.load(Ordering::SeqCst), 1);
    }
    drop(pool);
}

/// (e) M tasks on N workers: at no moment are more than N of them running (a pool of one is
/// serial); every task still runs exactly once
fn at_most_n(n: usize, m: usize) {
    let pool = ThreadPool::new(n);
    let running = Arc::new(AtomicUsize::new(0));
    let done = Latch::new();
    for _ in 0..m {
        let running = running.clone();
        let done = done.clone();
        pool.execute(move || {
            let now = running.fetch_add(1, Ordering::SeqCst) + 1;
            assert!(now <= n, "more tasks running at once than the pool has workers");
            loom::thread::yield_now();
            running.fetch_sub(1, Ordering::SeqCst);
            done.arrive();
        });
    }
    done.wait_for(m);
    drop(pool);
}

fn main() {
    let args: Vec<String> = std::env::args().collect();
    if args.len() < 5 {
        eprintln!("usage: loomcheck <exactly_once|rendezvous|slow_task|two_submitters> N M <bound|none> [max_seconds]");
        std::process::exit(2);
    }
    let scenario = args[1].clone();
    let n: usize = args[2].parse().unwrap();
    let m: usize = args[3].parse().unwrap();
    let bound: Option<usize> = args[4].parse().ok();
    let max_secs: Option<u64> = args.get(5).and_then(|s| s.parse().ok());
    let mut b = loom::model::Builder::new();
    b.preemption_bound = bound;
    b.max_branches = 1_000_000;
    if let Some(s) = max_secs {
        b.max_duration = Some(std::time::Duration::from_secs(s));
    }
    let start = std::time::Instant::now();
    let sc = scenario.clone();
    // silence the worker's println!/eprintln! noise? they go to stdout/stderr of this process; the driver discards them
    b.check(move || {
        EXECUTIONS.fetch_add(1, StdOrdering::Relaxed);
        match sc.as_str() {
            "exactly_once" => exactly_once(n, m),
            "rendezvous" => rendezvous(n, m),
            "slow_task" => slow_task(n, m),
            "two_submitters" => two_submitters(n, m),
            "at_most_n" => at_most_n(n, m),
            _ => panic!("unknown scenario"),
        }
    });
    let elapsed = start.elapsed().as_secs_f64();
    let capped = max_secs.map(|s| elapsed >= s as f64).unwrap_or(false);
    eprintln!(
        "RESULT {{\"scenario\":\"{}\",\"n\":{},\"m\":{},\"preemption_bound\":{},\"executions\":{},\"events\":{},\"seconds\":{:.3},\"capped\":{}}}",
        scenario,
        n,
        m,
        bound.map(|b| b.to_string()).unwrap_or_else(|| "null".into()),
        EXECUTIONS.load(StdOrdering::Relaxed),
        EVENTS.load(StdOrdering::Relaxed),
        elapsed,
        capped
    );
}
