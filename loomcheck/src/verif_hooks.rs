//! loom side of `crate::verif_hooks`: the thread pool's `thread`, `Arc`, `Mutex` and `mpsc`
//! resolve to loom's controlled primitives, so loom owns every scheduling decision of the
//! pool. loom's channel has no disconnect notion; the wrapper below carries Option<T>
//! and turns a dropped Sender into std's "recv() returns Err for every receiver" semantics.

pub use loom::sync::{Arc, Mutex};
pub use loom::thread;

use std::sync::atomic::{AtomicU64, Ordering};

pub static EVENTS: AtomicU64 = AtomicU64::new(0);

#[inline]
pub fn point(_label: &'static str) {
    EVENTS.fetch_add(1, Ordering::Relaxed);
}

/// under loom every thread must terminate: a worker leaves its loop once the job channel
/// is disconnected (production keeps looping; it never gets there because the sender lives
/// as long as the pool).
#[inline]
pub fn exit_on_disconnect() -> bool {
    true
}

pub mod mpsc {
    use super::EVENTS;
    use loom::sync::mpsc as lm;
    use std::fmt;
    use std::sync::atomic::Ordering;

    pub struct Sender<T> {
        inner: lm::Sender<Option<T>>,
    }
    pub struct Receiver<T> {
        inner: lm::Receiver<Option<T>>,
        again: lm::Sender<Option<T>>,
    }
    pub struct SendError<T>(pub T);
    #[derive(Debug)]
    pub struct RecvError;

    impl<T> fmt::Display for SendError<T> {
        fn fmt(&self, f: &mut fmt::Formatter<'_>) -> fmt::Result {
            f.write_str("sending on a closed channel")
        }
    }
    impl<T> fmt::Debug for SendError<T> {
        fn fmt(&self, f: &mut fmt::Formatter<'_>) -> fmt::Result {
            f.write_str("SendError")
        }
    }
    impl fmt::Display for RecvError {
        fn fmt(&self, f: &mut fmt::Formatter<'_>) -> fmt::Result {
            f.write_str("receiving on a closed channel")
        }
    }

    pub fn channel<T>() -> (Sender<T>, Receiver<T>) {
        let (tx, rx) = lm::channel();
        let again = tx.clone();
        (Sender { inner: tx }, Receiver { inner: rx, again })
    }

    impl<T> Sender<T> {
        pub fn send(&self, t: T) -> Result<(), SendError<T>> {
            EVENTS.fetch_add(1, Ordering::Relaxed);
            match self.inner.send(Some(t)) {
                Ok(()) => Ok(()),
                Err(e) => Err(SendError(e.0.expect("a Some was sent"))),
            }
        }
    }
    impl<T> Drop for Sender<T> {
        fn drop(&mut self) {
            // disconnect marker
            let _ = self.inner.send(None);
        }
    }
    pub use std::sync::mpsc::{RecvTimeoutError, TryRecvError};

    impl<T> Receiver<T> {
        /// non-blocking variant (for changes of the pool that poll the queue)
        pub fn try_recv(&self) -> Result<T, TryRecvError> {
            EVENTS.fetch_add(1, Ordering::Relaxed);
            match self.inner.try_recv() {
                Ok(Some(t)) => Ok(t),
                Ok(None) => {
                    let _ = self.again.send(None);
                    Err(TryRecvError::Disconnected)
                }
                Err(e) => Err(e),
            }
        }

        /// A wait with a time limit: time is not part of the model, so the limit may expire at any
        /// moment at which nothing is queued - the waiting thread first gives every other thread the
        /// chance to run (yield), then takes what is there or reports the timeout.
        pub fn recv_timeout(&self, _limit: std::time::Duration) -> Result<T, RecvTimeoutError> {
            EVENTS.fetch_add(1, Ordering::Relaxed);
            loom::thread::yield_now();
            match self.inner.try_recv() {
                Ok(Some(t)) => Ok(t),
                Ok(None) => {
                    let _ = self.again.send(None);
                    Err(RecvTimeoutError::Disconnected)
                }
                Err(TryRecvError::Disconnected) => Err(RecvTimeoutError::Disconnected),
                Err(TryRecvError::Empty) => Err(RecvTimeoutError::Timeout),
            }
        }

        pub fn recv(&self) -> Result<T, RecvError> {
            EVENTS.fetch_add(1, Ordering::Relaxed);
            match self.inner.recv() {
                Ok(Some(t)) => Ok(t),
                Ok(None) => {
                    // keep the marker for the other workers
                    let _ = self.again.send(None);
                    Err(RecvError)
                }
                Err(_) => Err(RecvError),
            }
        }
    }
}
