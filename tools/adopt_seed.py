#!/usr/bin/env python3
"""adopt_seed.py <ID> <k> <needs> [extra demo files...] : copy a confirmed seeded change from /tmp/seedout/<ID> to /verif/seeded/<ID>-<k>/"""
import json, os, shutil, sys
pid, k, needs = sys.argv[1], sys.argv[2], sys.argv[3]
rnd = int(os.environ.get("SEED_ROUND", "1"))     # round 2 becomes <ID>-3, <ID>-4
src = f"/tmp/seedout{rnd if rnd > 1 else ''}/{pid}"
dst = f"/verif/seeded/{pid}-{int(k) + 2 * (rnd - 1)}"
os.makedirs(dst, exist_ok=True)
shutil.copy(f"{src}/patch{k}.diff", f"{dst}/patch.diff")
for f in os.listdir(src):
    if f.startswith(f"demo{k}"):
        shutil.copy(f"{src}/{f}", f"{dst}/{f.replace('demo'+k, 'demo')}")
if os.path.exists(f"{src}/notes{k}.md"):
    shutil.copy(f"{src}/notes{k}.md", f"{dst}/notes.md")
meta = {"property": pid, "breaks": pid, "needs_to_manifest": needs,
        "origin": "independent sub-agent (round %d) given only the property text and a scratch worktree" % rnd,
        "confirmed_by": f"tools/confirm_seed.sh {src} patch{k}.diff demo{k}.diff {pid.lower()}{'_r%d' % rnd if rnd > 1 else ''}_demo{k}: demo passes on the clean tree, fails with the patch, the unedited suite (BASELINE stable_pass) passes with the patch",
        "detected_by": [pid]}
json.dump(meta, open(f"{dst}/meta.json", "w"), indent=1)
print(dst)
