#!/usr/bin/env python3
"""adopt_seed.py <ID> <k> <needs> [extra demo files...] : copy a confirmed seeded change from /tmp/seedout/<ID> to /verif/seeded/<ID>-<k>/"""
import json, os, shutil, sys
pid, k, needs = sys.argv[1], sys.argv[2], sys.argv[3]
src = f"/tmp/seedout/{pid}"
dst = f"/verif/seeded/{pid}-{k}"
os.makedirs(dst, exist_ok=True)
shutil.copy(f"{src}/patch{k}.diff", f"{dst}/patch.diff")
for f in os.listdir(src):
    if f.startswith(f"demo{k}"):
        shutil.copy(f"{src}/{f}", f"{dst}/{f.replace('demo'+k, 'demo')}")
if os.path.exists(f"{src}/notes{k}.md"):
    shutil.copy(f"{src}/notes{k}.md", f"{dst}/notes.md")
meta = {"property": pid, "breaks": pid, "needs_to_manifest": needs,
        "origin": "independent sub-agent given only the property text and a scratch worktree",
        "confirmed_by": f"tools/confirm_seed.sh /tmp/seedout/{pid} patch{k}.diff demo{k}.diff seed_demo_{pid.lower()}_{k}: demo passes on the clean tree, fails with the patch, the unedited suite (BASELINE stable_pass) passes with the patch",
        "detected_by": [pid]}
json.dump(meta, open(f"{dst}/meta.json", "w"), indent=1)
print(dst)
