#!/bin/bash
# confirm_seed.sh <dir-with-patch-and-demo> <patch.diff> <demo.diff> <test-filter>
# In a scratch worktree of /repo HEAD: demo passes without the patch, fails with it, and the
# unedited suite still passes with the patch. Removes the worktree afterwards.
set -u
D=$1; PATCH=$2; DEMO=$3; FILTER=$4
WT=/tmp/confirm/$(basename $D)-$$
mkdir -p /tmp/confirm
git -C /repo worktree add -q --detach $WT HEAD || exit 2
trap 'git -C /repo worktree remove --force $WT >/dev/null 2>&1' EXIT
export CARGO_TARGET_DIR=$WT/target
cd $WT
git apply --whitespace=nowarn $D/$DEMO || { echo "DEMO-DOES-NOT-APPLY"; exit 3; }
cargo test --offline $FILTER -- --test-threads=1 > $WT/demo_clean.log 2>&1; RC_CLEAN=$?
git apply --whitespace=nowarn $D/$PATCH || { echo "PATCH-DOES-NOT-APPLY"; exit 3; }
cargo test --offline $FILTER -- --test-threads=1 > $WT/demo_patched.log 2>&1; RC_PATCHED=$?
git apply -R --whitespace=nowarn $D/$DEMO
python3 /verif/tools/suite.py $WT > $WT/suite.log 2>&1; RC_SUITE=$?
echo "demo without patch rc=$RC_CLEAN ($(grep 'test result' $WT/demo_clean.log | head -1))"
echo "demo with patch    rc=$RC_PATCHED ($(grep 'test result' $WT/demo_patched.log | head -1))"
echo "suite with patch   rc=$RC_SUITE ($(tail -1 $WT/suite.log))"
if [ $RC_CLEAN -eq 0 ] && [ $RC_PATCHED -ne 0 ] && [ $RC_SUITE -eq 0 ]; then echo CONFIRMED; exit 0; else echo NOT-CONFIRMED; exit 1; fi
