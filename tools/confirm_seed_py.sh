#!/bin/bash
# confirm_seed_py.sh <dir-with-patch-and-demo> <patch.diff> <demo.py> : like confirm_seed.sh for a
# demonstration that is a script driving the built binary (binary path passed as argv[1] and RWS_BIN).
set -u
D=$1; PATCH=$2; DEMO=$3
WT=/tmp/confirm/$(basename $D)-py-$$
mkdir -p /tmp/confirm
git -C /repo worktree add -q --detach $WT HEAD || exit 2
trap 'git -C /repo worktree remove --force $WT >/dev/null 2>&1' EXIT
export CARGO_TARGET_DIR=$WT/target
cd $WT
cargo build --offline > $WT/build_clean.log 2>&1 || { echo BUILD-FAILED; exit 3; }
cp $WT/target/debug/rws $WT/rws_clean
git apply --whitespace=nowarn $D/$PATCH || { echo "PATCH-DOES-NOT-APPLY"; exit 3; }
cargo build --offline > $WT/build_patched.log 2>&1 || { echo BUILD-FAILED; exit 3; }
cp $WT/target/debug/rws $WT/rws_patched
cd $D
RWS_BIN=$WT/rws_clean timeout 600 python3 $D/$DEMO $WT/rws_clean > $WT/demo_clean.log 2>&1; RC_CLEAN=$?
RWS_BIN=$WT/rws_patched timeout 600 python3 $D/$DEMO $WT/rws_patched > $WT/demo_patched.log 2>&1; RC_PATCHED=$?
cd $WT
python3 /verif/tools/suite.py $WT > $WT/suite.log 2>&1; RC_SUITE=$?
echo "demo without patch rc=$RC_CLEAN ($(tail -1 $WT/demo_clean.log))"
echo "demo with patch    rc=$RC_PATCHED ($(tail -1 $WT/demo_patched.log))"
echo "suite with patch   rc=$RC_SUITE ($(tail -1 $WT/suite.log))"
if [ $RC_CLEAN -eq 0 ] && [ $RC_PATCHED -ne 0 ] && [ $RC_SUITE -eq 0 ]; then echo CONFIRMED; exit 0; else echo NOT-CONFIRMED; exit 1; fi
