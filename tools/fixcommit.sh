#!/bin/bash
# usage: fixcommit.sh <message-file>   - runs the unedited suite in /repo and commits the working-tree change
set -e
python3 /verif/tools/suite.py /repo
cd /repo && git add -A && git commit -q -F "$1" && git log --oneline -1
