#!/usr/bin/env python3
"""Regenerates MANIFEST.json from tools/manifest_src.json (the hand-written per-property texts)."""
import json, os, subprocess
V = os.path.dirname(os.path.dirname(os.path.abspath(__file__)))
src = json.load(open(os.path.join(V, "tools", "manifest_src.json")))
props = [json.loads(l)["id"] for l in open(os.path.join(V, "properties.jsonl"))]
checks, na = [], []
for pid in props:
    c = src["checks"].get(pid)
    if c is None:
        na.append({"property_id": pid, "reason": src["not_yet"].get(pid, "check not built yet in this tree; planned in DESIGN.md section 4")})
        continue
    checks.append({
        "property_id": pid,
        "quick_cmd": f"./check {pid} --tier quick",
        "thorough_cmd": f"./check {pid} --tier thorough",
        "evidence_file": f"/verif/evidence/{pid}.json",
        "replay_cmd_template": "./check replay {path}",
        "engine": c["engine"],
        "level_claimed": {"category": c["level"], "text": c["text"], "design_ref": c.get("design_ref", "DESIGN.md section 4, " + pid)},
        "level_note": c["note"],
        "technique": c["technique"],
    })
hooks = src["hooks"]
try:
    hooks["source_commits"] = subprocess.check_output(["git", "-C", "/repo", "log", "--format=%H", "--grep=^verif hook"], text=True).split()
except Exception:
    pass
m = {"version": 1, "setup_cmd": src["setup_cmd"], "hooks": hooks, "engines": src["engines"], "checks": checks,
     "notes": src["notes"], "not_applicable": na}
json.dump(m, open(os.path.join(V, "MANIFEST.json"), "w"), indent=1)
print(f"{len(checks)} checks, {len(na)} not claimed")
