#!/usr/bin/env python3
"""record_fix.py <PROP> <commit> <short-name> <what failed> [signature ...]
Adds a 'fixed' entry to known_findings.json and stores the reverse patch as a mutant."""
import json, subprocess, sys, os
V = os.path.dirname(os.path.dirname(os.path.abspath(__file__)))
prop, commit, name, what = sys.argv[1:5]
sigs = sys.argv[5:]
full = subprocess.check_output(["git", "-C", "/repo", "rev-parse", "--short", commit], text=True).strip()
p = os.path.join(V, "known_findings.json")
d = json.load(open(p))
d["fixed"] = [e for e in d["fixed"] if not (e["property"] == prop and e["commit"] == full)]
d["fixed"].append({"property": prop, "commit": full, "line": f"fixed: property={prop} {full} {what}", "signatures": sigs})
json.dump(d, open(p, "w"), indent=1)
rev = subprocess.check_output(["git", "-C", "/repo", "diff", commit, commit + "~1"], text=True)
mp = os.path.join(V, "mutants", f"{prop}__revert_{name}.diff")
open(mp, "w").write(rev)
chk = subprocess.run(["git", "-C", "/repo", "apply", "--check", mp], capture_output=True, text=True)
print(mp, "applies to HEAD" if chk.returncode == 0 else "DOES NOT APPLY to HEAD: " + chk.stderr[:200])
