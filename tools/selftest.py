#!/usr/bin/env python3
"""Applies each patch under /verif/mutants (name: <ID>__<what>.diff) and /verif/seeded/<name>/patch.diff
to /repo, runs the quick check of the property it breaks, expects exit 1 with a VIOLATION line,
and restores /repo. Evidence files touched by these runs are restored afterwards.
usage: tools/selftest.py [name-substring ...]"""
import glob, json, os, shutil, subprocess, sys, time
V = os.path.dirname(os.path.dirname(os.path.abspath(__file__)))
def sh(*a, **k):
    return subprocess.run(*a, **k)
def clean_repo():
    sh(["git", "-C", "/repo", "checkout", "--", "."]); sh(["git", "-C", "/repo", "clean", "-fdq", "-e", "target"])
items = []
for p in sorted(glob.glob(os.path.join(V, "mutants", "*.diff"))):
    name = os.path.basename(p)[:-5]
    items.append((name, name.split("__")[0].split("+"), p))
for d in sorted(glob.glob(os.path.join(V, "seeded", "*"))):
    mp = os.path.join(d, "meta.json")
    if os.path.exists(mp):
        m = json.load(open(mp))
        props = m.get("detected_by") or [m["property"]]
        items.append(("seeded/" + os.path.basename(d), props, os.path.join(d, "patch.diff")))
flt = sys.argv[1:]
st = sh(["git", "-C", "/repo", "status", "--porcelain", "--untracked-files=no"], capture_output=True, text=True).stdout.strip()
if st:
    print("refusing: /repo has uncommitted changes"); sys.exit(2)
results = []
for name, props, patch in items:
    if flt and not any(f in name for f in flt):
        continue
    ap = sh(["git", "-C", "/repo", "apply", "--whitespace=nowarn", patch], capture_output=True, text=True)
    if ap.returncode != 0:
        results.append((name, "PATCH-DOES-NOT-APPLY", ap.stderr.strip()[:200])); clean_repo(); continue
    try:
        verdicts = []
        for prop in props:
            ev = os.path.join(V, "evidence", f"{prop}.json")
            bak = ev + ".selftest.bak"
            if os.path.exists(ev): shutil.copy(ev, bak)
            t = time.time()
            r = sh([os.path.join(V, "check"), prop, "--tier", "quick"], cwd=V, capture_output=True, text=True)
            lines = [l for l in r.stdout.splitlines() if l.startswith("VIOLATION") or l.startswith("MACHINERY")]
            # keep the first witness as a regression file: replays/<prop>/witness__<item>.json
            for l in lines:
                if l.startswith("VIOLATION") and "replay=" in l:
                    src = l.split("replay=", 1)[1].strip()
                    if os.path.exists(src):
                        dst = os.path.join(V, "replays", prop, "witness__" + name.replace("/", "_") + ".json")
                        shutil.copy(src, dst)
                    break
            sigs = [l.strip() for l in r.stdout.splitlines() if l.strip().startswith("signature=")]
            verdicts.append((prop, r.returncode, lines[:2], sigs[:2], round(time.time() - t, 1)))
            if os.path.exists(bak): shutil.move(bak, ev)
        ok = any(v[1] == 1 and any(l.startswith("VIOLATION") for l in v[2]) for v in verdicts)
        results.append((name, "DETECTED" if ok else "MISSED", verdicts))
    finally:
        clean_repo()
for r in results:
    print(r[0], r[1]); 
    if isinstance(r[2], list):
        for v in r[2]: print("   ", v[0], "rc=%s" % v[1], v[3][:1], f"{v[4]}s")
    else: print("   ", r[2])
# replays written while a mutant was applied are not evidence about the real tree
for f in glob.glob(os.path.join(V, "replays", "*", "*.json")):
    if not os.path.basename(f).startswith("witness__") and sh(["git", "-C", V, "ls-files", "--error-unmatch", f], capture_output=True).returncode != 0:
        os.remove(f)
sys.exit(0 if all(r[1] == "DETECTED" for r in results) else 1)
