#!/usr/bin/env python3
"""Runs the repository's suite (guard off) in a given checkout and compares with BASELINE.json's
stable_pass list. Tests that fail in the parallel run are re-run single-threaded (the suite has
tests racing on process environment variables). exit 0 = every stable_pass test passed.
usage: suite.py [dir]   (default /repo)"""
import json, re, subprocess, sys
d = sys.argv[1] if len(sys.argv) > 1 else "/repo"
base = json.load(open("/root/.vp/BASELINE.json"))
stable = {t.split("rws::bin/rws::", 1)[1] for t in base["stable_pass"]}
def run(extra):
    p = subprocess.run(["cargo", "test", "--workspace", "--no-fail-fast", "--offline", "--"] + extra, cwd=d, capture_output=True, text=True)
    res = {}
    for l in p.stdout.splitlines():
        m = re.match(r"^test (\S+) \.\.\. (\w+)", l)
        if m: res[m.group(1)] = m.group(2)
    return res, p
res, p = run([])
if not res:
    print("suite did not run:\n" + p.stderr[-2000:]); sys.exit(2)
bad = [t for t in stable if res.get(t) != "ok"]
if bad:
    res2, _ = run(["--test-threads=1"])
    bad = [t for t in bad if res2.get(t) != "ok"]
print(f"{sum(1 for v in res.values() if v=='ok')} passed in the parallel run; stable_pass tests failing (also single-threaded): {bad}")
sys.exit(1 if bad else 0)
